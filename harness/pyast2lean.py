#!/venv/bin/python
"""pyast2lean: translate selected Python functions of npTDMS (their `ast`) into Lean 4 definitions.

Shallow embedding: every selected Python function becomes one Lean `def` in namespace
`Tdms.Generated.Code` (file `lean/Tdms/Generated/Code.lean`, regenerated on every run from the CURRENT
source).  The theorems `…_tied` in `lean/TdmsProofs/Properties/C*Tied.lean` state that each generated
definition equals the hand-written model function; a semantic change of the source regenerates a
different definition and the theorem stops compiling.

SUPPORTED PYTHON SUBSET  (anything else raises `Untranslatable(reason)` naming function and line; the
framework reports that as a broken tie, never as a silent skip)

  values      int -> Int; bool -> Bool; None-able -> Option; list / tuple-as-sequence / numpy index array -> List;
              fixed tuples -> products; str -> List Char; dict -> Py.Dict (insertion ordered association list
              without repeated keys); objects -> structures of the STRUCTS table; one element of a numpy uint64
              array -> UInt64 (wrapping); an open file -> its position (Int); opaque Python values -> type
              parameters of the generated definition
  expressions int / bool / None / str literals, names, `+ - *`, `//` and `%` (floor semantics: `Py.floordiv`,
              `Py.mod` raise ZeroDivisionError; `Int.fdiv` / `Int.fmod` when the divisor is a non-zero constant
              expression), `**` with constant exponent, `<< >>` with constant count, `&`, unary minus, comparisons
              (chained too; `x == v` with x None-able), `is None` / `is not None` (a tested name or attribute is
              bound to its non-None value in the branch: `match … with | none => … | some x => …`),
              `x in (c1, c2)`, `and / or / not` (short circuit kept when an operand can raise), conditional
              expressions, `len min max int sum abs any all enumerate zip range set list copy isinstance next`,
              list comprehensions / generator expressions (one `for`, optional `if`s) as arguments of those,
              dict comprehensions that keep the keys of `d.items()`, tuples, `t[0]` on tuples, `xs[i]` (IndexError,
              negative indices wrap), `xs[a:b]`, `d[k]` (KeyError), `d.get(k, dflt)`, attribute reads (structure
              fields; on a None-able object AttributeError; `None` used as a number TypeError), constructors of
              the CONSTRUCTORS table, calls of other translated functions / methods, `np.searchsorted(a, v,
              side=…)` (-> `Py.searchsortedRight/Left`, TRUSTED to be numpy's on sorted input), `np.uint64`,
              `np.minimum`, `sep.join`, `s.replace(<one character>, t)`, `zip_longest(xs, xs[1:])`, module level
              constants and constant dicts (translated from their defining expression in the source, also through
              `from nptdms.x import name`)
  statements  local assignment, tuple unpacking, augmented assignment, `self.attr = e` (the method then returns the
              updated `self`: result `Self`, or `(value × Self)`), `self.xs.append(v)`, `self.xs[i] = v`,
              `obj.attr = e` on an object made by copy() / a constructor in the same function, `xs[i] = v`,
              `d[k] = v`, `xs.append(v)`, `if / elif / else`, `return` (also inside loops), `raise` (->
              `Except.error "<ClassName>"`), `for pattern in iterable:` with `continue` / `break` and running local
              state (-> `Py.forP` / `Py.forE` over `Py.Step`, `Py.forC` over `Py.Ctl` when the body returns),
              `while` with a declared iteration bound (-> `Py.whileE`; exceeding the bound is the pseudo exception
              "NonTermination", which the tied theorems exclude), `pass`, `with Timer(...)` (transparent),
              `yield e` in generator functions (the definition returns the list of yielded values),
              `x = next(it)` / `next(it)` on a local iterator (-> `match it with | [] => StopIteration | x :: it`),
              `try: … except StopIteration: return`, `try: … except <Class>: …` (-> `Py.tryCatch`, exact class
              only), `f.seek(p)`, `f.seek(p, os.SEEK_CUR)`
  ignored     docstrings, comments, `log.<level>(...)` calls, `warnings.warn(...)`, exception messages

A function is emitted as a pure `def … : T` when nothing in it can raise, else as `def … : Except Py.Exc T` in
`do` notation where every operation that can raise is sequenced with `←` in Python's evaluation order.
Local names are kept; re-assignment is a shadowing `let`; a variable assigned in the branches of an `if` that
falls through is the (tuple) value of the `if`; the running variables of a loop are exactly the variables assigned
in the body that are read before being written in the next iteration or after the loop.

TRUSTED (the translation is as good as these):
  * `STRUCTS`, `ABSENT_ATTR`, `ISINSTANCE`, `CONSTRUCTORS`: which attributes of the Python objects exist, their
    types, which isinstance tests are which Bool fields;
  * `TARGETS`: parameter types; `abstract` = calls that are NOT translated but become (function) parameters of the
    definition (I/O, numpy data, other classes); `replace` / `rewrite` = source rewritings applied before translation
    (index cache lookup -> parameter `channel_index`; numpy timedelta64[us] arithmetic -> integer microseconds;
    `self['second_fractions']` -> a uint64 parameter); `region` = only a slice of a function is translated;
    `while_fuel`;
  * `lean/Tdms/Generated/CodePrelude.lean`: the semantics of the Python operations (`Py.*`);
  * value semantics: objects are immutable values in Lean; the translator refuses attribute assignment on objects
    that may be aliased, but a method of `self` that updates `self` must be called as a statement or as the whole
    right-hand side (checked) and mutable objects shared between two variables are not tracked beyond that.
"""
import ast
import os
import re

REPO_DEFAULT = os.environ.get("NPTDMS_REPO", "/repo")


class Untranslatable(Exception):
    def __init__(self, reason, func=None, node=None):
        self.reason = reason
        self.func = func
        self.lineno = getattr(node, "lineno", None)
        super().__init__(reason)

    def __str__(self):
        return "%s (function %s, line %s)" % (self.reason, self.func, self.lineno)


class NeedEffect(Exception):
    """internal: a construct that can raise was met while emitting a pure term"""


# ------------------------------------------------------------------------------------------------
# types
# ------------------------------------------------------------------------------------------------

INT = ("int",)
BOOL = ("bool",)
PATH = ("path",)
CHAR = ("char",)
UNIT = ("unit",)
U64 = ("u64",)      # one element of a numpy uint64 array: arithmetic wraps modulo 2**64
FILEPOS = ("filepos",)   # an open file, identified with its current position (`seek` assigns it, `tell` reads it)


def Opt(t):
    return ("opt", t)


def Lst(t):
    return ("list", t)


def Tup(*ts):
    return ("tuple", tuple(ts))


def Dct(k, v):
    return ("dict", k, v)


def Struct(n):
    return ("struct", n)


def Fn(args, ret, eff=False):
    return ("fn", tuple(args), ret, eff)


def Abstract(n):
    """an opaque Lean type parameter of the generated definition"""
    return ("abstract", n)


class TVar:
    """type of an empty literal (`[]`, `{}`, `None`) until its first use fixes it"""

    def __init__(self):
        self.ref = None

    def __repr__(self):
        return "TVar(%r)" % (self.ref,)


def resolve(t):
    while isinstance(t, TVar) and t.ref is not None:
        t = t.ref
    if isinstance(t, tuple):
        if t[0] in ("opt", "list"):
            return (t[0], resolve(t[1]))
        if t[0] == "tuple":
            return ("tuple", tuple(resolve(x) for x in t[1]))
        if t[0] == "dict":
            return ("dict", resolve(t[1]), resolve(t[2]))
    return t


def unify(a, b):
    """make `a` and `b` equal by assigning type variables; False when impossible"""
    a, b = resolve(a), resolve(b)
    if {a, b} == {FILEPOS, INT} if (isinstance(a, tuple) and isinstance(b, tuple)) else False:
        return True       # a file passed on is passed as its position
    if isinstance(a, TVar):
        if a is not b:
            a.ref = b
        return True
    if isinstance(b, TVar):
        b.ref = a
        return True
    if a[0] != b[0]:
        return False
    if a[0] in ("opt", "list"):
        return unify(a[1], b[1])
    if a[0] == "tuple":
        return len(a[1]) == len(b[1]) and all(unify(x, y) for x, y in zip(a[1], b[1]))
    if a[0] == "dict":
        return unify(a[1], b[1]) and unify(a[2], b[2])
    return a == b


STRUCT_PARAMS = {}


def lean_type(t, top=True):
    t = resolve(t)
    if isinstance(t, TVar):
        return "_"
    k = t[0]
    if k == "int":
        return "Int"
    if k == "bool":
        return "Bool"
    if k == "path":
        return "Py.Path"
    if k == "char":
        return "Char"
    if k == "unit":
        return "Unit"
    if k == "u64":
        return "UInt64"
    if k == "filepos":
        return "Int"
    if k == "struct":
        sp = STRUCT_PARAMS.get(t[1])
        if sp:
            return t[1] + " " + " ".join(sp) if top else "(" + t[1] + " " + " ".join(sp) + ")"
        return t[1]
    if k == "abstract":
        return t[1]
    s = None
    if k == "opt":
        s = "Option " + lean_type(t[1], False)
    elif k == "list":
        s = "List " + lean_type(t[1], False)
    elif k == "tuple":
        return "(" + " × ".join(lean_type(x, False) for x in t[1]) + ")"
    elif k == "dict":
        s = "Py.Dict %s %s" % (lean_type(t[1], False), lean_type(t[2], False))
    elif k == "fn":
        s = " → ".join([lean_type(x, False) for x in t[1]] + [("Except Py.Exc " + lean_type(t[2], False)) if t[3] else lean_type(t[2], False)])
        if not t[1]:
            return s if (top or not t[3]) else "(" + s + ")"
    return s if top else "(" + s + ")"


LEAN_KEYWORDS = {
    "end", "from", "at", "open", "in", "then", "fun", "do", "let", "have", "show", "match", "with", "if", "else",
    "for", "return", "instance", "structure", "class", "def", "theorem", "Type", "Prop", "Sort", "mut", "where",
    "namespace", "section", "variable", "import", "export", "by", "using", "nomatch", "this", "break", "continue",
    "try", "catch", "finally", "unless", "macro", "syntax", "deriving", "extends", "abbrev", "example", "axiom",
    "set_option", "attribute", "local", "private", "protected", "partial", "unsafe", "mutual", "inductive",
    "calc", "infix", "notation", "universe", "Step", "some", "none", "true", "false", "pure", "throw",
}


def lname(n):
    return "«%s»" % n if n in LEAN_KEYWORDS else n


def atom(code):
    """parenthesise unless obviously atomic"""
    if re.fullmatch(r"[\w.«»']+", code) or (code.startswith("(") and _balanced(code)):
        return code
    if code.startswith("[") and code.endswith("]") and _balanced(code):
        return code
    return "(" + code + ")"


def _balanced(code):
    """does the opening bracket at position 0 close at the very end"""
    depth = 0
    pairs = {"(": ")", "[": "]"}
    opener = code[0]
    closer = pairs[opener]
    for i, ch in enumerate(code):
        if ch == opener:
            depth += 1
        elif ch == closer:
            depth -= 1
            if depth == 0:
                return i == len(code) - 1
    return False


def char_lit(c):
    if c == "'":
        return "'\\''"
    if c == "\\":
        return "'\\\\'"
    if not (32 <= ord(c) < 127):
        return "(Char.ofNat %d)" % ord(c)
    return "'%s'" % c


def typed(e):
    """code of `e`; a bare integer literal gets its type (`(0 : Int)`), Lean would default it to Nat"""
    if resolve(e.ty) == INT and re.fullmatch(r"\(?-?\d+\)?", e.code):
        return "(%s : Int)" % e.code.strip("()")
    return e.code


class E:
    """a translated expression: Lean code, type, and for booleans optionally the Prop form"""

    def __init__(self, code, ty, prop=None):
        self.code = code
        self.ty = ty
        self.prop = prop

    def as_prop(self):
        if self.prop is not None:
            return self.prop
        return "%s = true" % atom(self.code)


# ------------------------------------------------------------------------------------------------
# TRUSTED TABLES
# ------------------------------------------------------------------------------------------------

# Python objects -> Lean structures: attribute name -> type.  `isinstance` tests map to Bool fields.
STRUCTS = {
    # `obj.data_type` is a TdmsType class; only its `size` is read (None for strings)
    "DataType": [("size", Opt(INT))],
    # DaqMxScaler / DigitalLineScaler
    "DaqMxScaler": [("raw_buffer_index", INT)],
    "DaqMxMetadata": [("raw_data_widths", Lst(INT)), ("scalers", Lst(Struct("DaqMxScaler")))],
    # BaseSegmentObject / TdmsSegmentObject / DaqmxSegmentObject.  `daqmx_metadata` does not exist on a
    # TdmsSegmentObject (reading it raises AttributeError): `none`.
    "SegmentObject": [("path", PATH), ("has_data", BOOL), ("number_values", INT), ("data_size", INT),
                      ("data_type", Opt(Struct("DataType"))), ("is_daqmx", BOOL),
                      ("daqmx_metadata", Opt(Struct("DaqMxMetadata")))],
    "TdmsSegment": [("toc_mask", INT), ("next_segment_pos", INT), ("data_position", INT),
                    ("segment_incomplete", BOOL), ("ordered_objects", Lst(Struct("SegmentObject"))),
                    ("num_chunks", INT), ("final_chunk_lengths_override", Opt(Dct(PATH, INT))),
                    ("chunk_size_cached", Opt(INT)), ("has_daqmx_objects_cached", Opt(BOOL))],
}
STRUCTS.update({
    # ObjectMetadata (reader.py): only num_values is read by the translated functions
    "ObjectMetadata": [("num_values", INT)],
    # TdmsReader: `_segments` is None until the metadata has been read
    "TdmsReader": [("_segments", Opt(Lst(Struct("TdmsSegment")))),
                   ("object_metadata", Dct(PATH, Struct("ObjectMetadata")))],
    # RawChannelDataChunk (base_segment.py); `Value` is an opaque type parameter
    "RawChannelDataChunk": [("data", Opt(Lst(Abstract("Value")))),
                            ("scaler_data", Opt(Dct(INT, Lst(Abstract("Value")))))],
    # TdmsChannel (tdms.py): `_cached_chunk_bounds` is only read when `_cached_chunk` is not None, and both
    # are assigned together, so it is given a non-optional type
    "TdmsChannel": [("_length", INT), ("_cached_chunk", Opt(Lst(Abstract("Value")))),
                    ("_cached_chunk_bounds", Tup(INT, INT))],
})
STRUCT_PARAMS.update({"RawChannelDataChunk": ["Value"], "TdmsChannel": ["Value"]})
STRUCTS["TdmsTimestamp"] = [("seconds", INT), ("second_fractions", INT)]
STRUCT_ORDER = ["DataType", "DaqMxScaler", "DaqMxMetadata", "SegmentObject", "TdmsSegment", "ObjectMetadata",
                "TdmsReader", "RawChannelDataChunk", "TdmsChannel", "TdmsTimestamp"]

# attributes that only some of the Python classes mapped to the structure have: the field is an Option and
# reading it raises AttributeError when absent
ABSENT_ATTR = {("SegmentObject", "daqmx_metadata")}

# isinstance(x : struct, PythonClass) -> Bool field of the structure
ISINSTANCE = {("SegmentObject", "DaqmxSegmentObject"): "is_daqmx"}

# Python constructors -> structure literal: class name -> (structure, fields in argument order)
CONSTRUCTORS = {"RawChannelDataChunk": ("RawChannelDataChunk", ["data", "scaler_data"])}

# calls that are dropped when they are a whole statement
IGNORED_CALL_PREFIXES = ("log.", "warnings.warn")
# context managers whose body is executed as is
TRANSPARENT_WITH = ("Timer",)


class Target:
    """one Python function to translate.
    file, qualname : where it is ("Class.method" or "function")
    params         : types of the parameters after `self`, in order
    ret            : type of the value returned by `return e` (None: the function returns None)
    """

    def __init__(self, file, qualname, params, ret=None, doc=None, abstract=None, generator=False, ret_yield=None,
                 replace=None, type_params=None, while_fuel=None, region=None, rewrite=None, lean_name=None):
        self.file = file
        self.qualname = qualname
        self.params = params
        self.ret = ret
        self.doc = doc
        # calls that are NOT translated but become (function) parameters of the generated definition:
        #   key -> (lean parameter name, Fn type, selector); key is a function name ("np.empty"), a pair
        #   (structure name, method name), ("len", abstract type) or ("[::]", abstract type);
        #   selector: which of ["recv", 0, 1, …] (receiver / positional arguments) are passed, in order
        self.abstract = abstract or {}
        self.generator = generator        # the function `yield`s; the definition returns the list of yielded values
        self.ret_yield = ret_yield
        # statements replaced before translation: [(predicate on the ast statement, replacement source)]
        self.replace = replace or []
        self.type_params = type_params or []   # opaque Lean types the definition is generic in
        # bound on the number of iterations of the `while` loops (Python expression over the parameters); the
        # loop raises "NonTermination" when it is exceeded, so a wrong bound makes the tied theorem fail
        self.while_fuel = while_fuel
        # region = (first statement predicate, last statement predicate, [(input name, type)], [output names]):
        # only that consecutive slice of the function's top-level statements is translated, as a function from the
        # inputs to the tuple of outputs (`params` / `ret` are then ignored)
        self.region = region
        self.rewrite = rewrite       # ast.NodeTransformer class applied to the function before translation
        self._lean_name = lean_name
        self.cls, _, self.name = qualname.rpartition(".")
        # filled by the translator
        self.effect = None
        self.mutates = None
        self.param_names = None

    @property
    def lean_name(self):
        return self._lean_name or self.qualname


SEG = "nptdms/tdms_segment.py"
DAQ = "nptdms/daqmx.py"

TARGETS = [
    Target(DAQ, "_lists_are_equal", [Lst(INT), Lst(INT)], BOOL),
    Target(DAQ, "get_buffer_dimensions", [Lst(Struct("SegmentObject"))], Lst(Tup(INT, INT))),
    Target(DAQ, "get_daqmx_chunk_size", [Lst(Struct("SegmentObject"))], INT),
    Target(DAQ, "get_daqmx_final_chunk_lengths", [Lst(Struct("SegmentObject")), INT], Dct(PATH, INT)),
    Target(SEG, "TdmsSegment._have_daqmx_objects", [], Opt(BOOL)),
    Target(SEG, "TdmsSegment._get_chunk_size", [], INT),
    Target(SEG, "TdmsSegment._compute_final_chunk_lengths", [INT, INT], Dct(PATH, INT)),
    Target(SEG, "TdmsSegment._calculate_chunks", [], None),
]

RD = "nptdms/reader.py"
TD = "nptdms/tdms.py"
CHUNK = Abstract("Chunk")
SEGT = Struct("TdmsSegment")


def _is_index_cache_lookup(s):
    """the `try: (first_segment, segment_offsets) = self._segment_channel_offsets[path] except KeyError: build`
    statement of reader.py"""
    return isinstance(s, ast.Try) and len(s.body) == 1 and "_segment_channel_offsets" in ast.unparse(s.body[0])


_READER_ABSTRACT = {
    ("TdmsReader", "_ensure_open"): ("ensure_open", Fn([], UNIT, True), []),
    ("TdmsReader", "_verify_segment_start"): ("verify_segment_start", Fn([SEGT], UNIT, True), [0]),
    ("TdmsReader", "_channel_index"): ("channel_index", Fn([PATH], Tup(INT, Lst(INT))), [0]),
    ("TdmsSegment", "get_segment_object"): ("get_segment_object", Fn([SEGT, PATH], Opt(Struct("SegmentObject"))), ["recv", 0]),
    ("TdmsSegment", "read_raw_data_for_channel"): ("seg_read", Fn([SEGT, PATH, INT, INT], Lst(CHUNK)), ["recv", 1, 2, 3]),
    ("len", "Chunk"): ("chunk_len", Fn([CHUNK], INT), ["recv"]),
    "_trim_channel_chunk": ("trim_channel_chunk", Fn([CHUNK, INT, INT], CHUNK), [0, 1, 2]),
}
_READER_REPLACE = [(_is_index_cache_lookup, "(first_segment, segment_offsets) = self._channel_index(channel_path)")]
RESULT = Abstract("R")

TARGETS += [
    Target(RD, "_trim_channel_chunk", [Struct("RawChannelDataChunk"), INT, INT], Struct("RawChannelDataChunk"),
           type_params=["Value"]),
    Target(RD, "TdmsReader.read_raw_data_for_channel", [PATH, INT, Opt(INT)], None, generator=True, ret_yield=CHUNK,
           abstract=_READER_ABSTRACT, replace=_READER_REPLACE, type_params=["Chunk"]),
    Target(RD, "TdmsReader.read_channel_chunk_for_index", [PATH, INT], Tup(CHUNK, INT),
           abstract=_READER_ABSTRACT, replace=_READER_REPLACE, type_params=["Chunk"]),
    Target(SEG, "TdmsSegment.read_raw_data_for_channel", [FILEPOS, PATH, INT, Opt(INT)], None, generator=True,
           ret_yield=CHUNK, type_params=["Chunk"],
           abstract={"RawChannelDataChunk.empty": ("empty_chunk", Fn([], CHUNK), []),
                     ("TdmsSegment", "_read_channel_data_chunks"):
                     ("read_channel_data_chunks", Fn([INT, PATH, INT, INT, INT], Lst(CHUNK)), [0, 2, 3, 4, 5])}),
    Target(TD, "TdmsChannel._read_slice", [Opt(INT), Opt(INT), Opt(INT)], RESULT, type_params=["Value", "R"],
           abstract={"np.empty": ("empty", Fn([], RESULT), []),
                     ("TdmsChannel", "read_data"): ("read_data", Fn([INT, INT], RESULT), [0, 1]),
                     ("[::]", "R"): ("step_slice", Fn([RESULT, INT], RESULT), [])}),
    Target("nptdms/common.py", "_components_to_path", [Opt(Lst(CHAR)), Opt(Lst(CHAR))], Lst(CHAR)),
    Target("nptdms/common.py", "_path_components", [Lst(CHAR)], None, generator=True, ret_yield=Lst(CHAR),
           while_fuel="len(path) + 1"),
    Target(TD, "TdmsChannel._read_at_index", [INT], Abstract("Value"), type_params=["Value", "Chunk"],
           abstract={("TdmsChannel", "_read_channel_data_chunk_for_index"):
                     ("read_chunk_for_index", Fn([INT], Tup(CHUNK, INT), True), [0]),
                     ("TdmsChannel", "_scale_data"): ("scale_data", Fn([CHUNK], Lst(Abstract("Value")), True), [0])}),
]


# ---- numpy datetime arithmetic (C12): trusted rewriting to integers ---------------------------------

def _is_td64(node):
    return isinstance(node, ast.Call) and ast.unparse(node.func) == "np.timedelta64" and len(node.args) == 2 \
        and isinstance(node.args[1], (ast.Constant, ast.Name))


class TimedeltaMicroseconds(ast.NodeTransformer):
    """a `timedelta64[us]` value is its integer number of microseconds:
    `np.timedelta64(k, 's')` -> `k * 1000000`, `np.timedelta64(k, 'us')` -> `k`,
    `int(x / np.timedelta64(1, 'us'))` -> `x` (an exact quotient of integers)"""

    def visit_Call(self, node):
        if isinstance(node.func, ast.Name) and node.func.id == "int" and len(node.args) == 1 \
                and isinstance(node.args[0], ast.BinOp) and isinstance(node.args[0].op, ast.Div) \
                and _is_td64(node.args[0].right) and ast.unparse(node.args[0].right) == "np.timedelta64(1, 'us')":
            return self.visit(node.args[0].left)
        self.generic_visit(node)
        if _is_td64(node) and isinstance(node.args[1], ast.Constant):
            if node.args[1].value == "s":
                return ast.BinOp(left=node.args[0], op=ast.Mult(), right=ast.Constant(value=1000000))
            if node.args[1].value == "us":
                return node.args[0]
        return node


class TimedeltaReturn(ast.NodeTransformer):
    """`return EPOCH + np.timedelta64(a, 's') + np.timedelta64(b, resolution)` -> `return (a, b)`: the result
    is identified with the integer magnitudes of its two timedelta terms"""

    def visit_Return(self, node):
        calls = []

        class V(ast.NodeVisitor):
            def visit_Call(self, n):
                if _is_td64(n):
                    calls.append(n.args[0])
                else:
                    self.generic_visit(n)
        if node.value is not None:
            V().visit(node.value)
        if calls:
            return ast.copy_location(ast.Return(value=ast.Tuple(elts=calls, ctx=ast.Load())), node)
        return node


class SecondFractionsField(ast.NodeTransformer):
    """`self['second_fractions']` (one element of the uint64 field) -> the parameter `second_fractions`"""

    def visit_Subscript(self, node):
        if ast.unparse(node) == "self['second_fractions']":
            return ast.copy_location(ast.Name(id="second_fractions", ctx=ast.Load()), node)
        return self.generic_visit(node)


def _assigns(name):
    return lambda st: isinstance(st, ast.Assign) and len(st.targets) == 1 and isinstance(st.targets[0], ast.Name) \
        and st.targets[0].id == name


TS = "nptdms/timestamp.py"
TARGETS += [
    Target(TS, "TdmsTimestamp.as_datetime64", [Lst(CHAR)], Tup(INT, INT), rewrite=TimedeltaReturn),
    Target(TS, "_multiply_high", [U64, INT], U64),
    Target(TS, "TimestampArray.as_datetime64", [], None, rewrite=SecondFractionsField,
           lean_name="TimestampArray.as_datetime64_steps",
           region=(_assigns("fractions"), _assigns("steps"), [("second_fractions", U64), ("steps_per_second", INT)],
                   [("steps", U64)])),
    Target("nptdms/types.py", "TimeStamp.__init__", [], None, rewrite=TimedeltaMicroseconds,
           lean_name="TimeStamp.init_encode",
           region=(_assigns("seconds"), _assigns("second_fractions"), [("epoch_delta", INT)],
                   [("seconds", INT), ("second_fractions", INT)])),
]


# ---- C02: which branch is taken for a raw data index header -----------------------------------------
_SEGOBJ = Struct("SegmentObject")
_C02_ABSTRACT = {
    ("TdmsSegment", "_new_segment_object"): ("new_segment_object", Fn([PATH, INT], _SEGOBJ), [0, 1], ("fresh",)),
    ("SegmentObject", "read_raw_data_index"): ("read_raw_data_index", Fn([_SEGOBJ, INT], _SEGOBJ, True), ["recv", 1],
                                               ("updates_receiver",)),
}
TARGETS += [
    Target(RD, "_number_of_segment_values", [_SEGOBJ, SEGT], INT),
    Target(SEG, "TdmsSegment._reuse_previous_object", [_SEGOBJ, INT, Abstract("File"), Abstract("Endian")], None,
           abstract=_C02_ABSTRACT, type_params=["File", "Endian"]),
    Target(SEG, "TdmsSegment._update_existing_object", [INT, _SEGOBJ, INT, Abstract("File"), Abstract("Endian")], None,
           abstract=_C02_ABSTRACT, type_params=["File", "Endian"]),
]


# ------------------------------------------------------------------------------------------------
# source access
# ------------------------------------------------------------------------------------------------

class Source:
    def __init__(self, repo_root, overrides=None):
        self.root = repo_root
        self.overrides = overrides or {}
        self.trees = {}

    def text(self, rel):
        if rel in self.overrides:
            return self.overrides[rel]
        with open(os.path.join(self.root, rel)) as f:
            return f.read()

    def tree(self, rel):
        if rel not in self.trees:
            self.trees[rel] = ast.parse(self.text(rel))
        return self.trees[rel]

    def find_function(self, rel, qualname):
        cls, _, name = qualname.rpartition(".")
        body = self.tree(rel).body
        if cls:
            found = [n for n in body if isinstance(n, ast.ClassDef) and n.name == cls]
            if not found:
                raise Untranslatable("class %s not found in %s" % (cls, rel), qualname)
            body = found[0].body
        found = [n for n in body if isinstance(n, ast.FunctionDef) and n.name == name]
        if len(found) != 1:
            raise Untranslatable("function not found (or defined twice) in %s" % rel, qualname)
        return found[0]

    def module_constant(self, rel, name, seen=()):
        """the defining expression of a module level name, following `from nptdms.x import name`"""
        if (rel, name) in seen:
            return None
        for node in self.tree(rel).body:
            if isinstance(node, ast.Assign) and len(node.targets) == 1 and isinstance(node.targets[0], ast.Name) \
                    and node.targets[0].id == name:
                return rel, node.value
            if isinstance(node, ast.ImportFrom) and node.module and node.module.startswith("nptdms"):
                for al in node.names:
                    if (al.asname or al.name) == name:
                        sub = node.module.replace(".", "/") + ".py"
                        return self.module_constant(sub, al.name, seen + ((rel, name),))
        return None


# ------------------------------------------------------------------------------------------------
# translator: expressions
# ------------------------------------------------------------------------------------------------

class Env:
    def __init__(self, vars=None, narrow=None, fresh=None):
        self.vars = dict(vars or {})       # python local name -> type
        self.narrow = dict(narrow or {})   # source text of a None-able expression -> (lean name, type) once tested
        self.fresh = set(fresh or ())      # locals bound to an object nobody else refers to (copy / constructor)

    def copy(self):
        return Env(self.vars, self.narrow, self.fresh)

    def assign(self, name, ty):
        e = self.copy()
        e.vars[name] = ty
        e.fresh.discard(name)
        for k in list(e.narrow):
            if k == name or k.startswith(name + ".") or k.startswith(name + "["):
                del e.narrow[k]
        return e


class Ctx:
    """bindings hoisted in front of the statement being translated: (pattern, code | lines, effectful)"""

    def __init__(self):
        self.binds = []
        self.self_read = False


def ind(lines, n=2):
    return [(i + n, t) for (i, t) in lines]


def L(text):
    return [(0, text)]


def const_value(node):
    """value of a constant integer expression, else None"""
    try:
        if isinstance(node, ast.Constant) and type(node.value) is int:
            return node.value
        if isinstance(node, ast.UnaryOp) and isinstance(node.op, ast.USub):
            v = const_value(node.operand)
            return None if v is None else -v
        if isinstance(node, ast.BinOp):
            a, b = const_value(node.left), const_value(node.right)
            if a is None or b is None:
                return None
            if isinstance(node.op, ast.Add):
                return a + b
            if isinstance(node.op, ast.Sub):
                return a - b
            if isinstance(node.op, ast.Mult):
                return a * b
            if isinstance(node.op, ast.Pow) and 0 <= b < 4096:
                return a ** b
            if isinstance(node.op, ast.LShift) and 0 <= b < 4096:
                return a << b
    except Exception:
        return None
    return None


class Translator:
    def __init__(self, source, targets, structs=None):
        self.src = source
        self.targets = {t.qualname: t for t in targets}
        self.order = list(targets)
        self.structs = structs or STRUCTS
        self.const_defs = {}     # lean name -> (code, type, origin)
        self.done = {}           # qualname -> def text
        self.cur = None          # Target being translated
        self.eff = False
        self.counter = 0
        self.mutates = False
        self.hints = {}

    # -- helpers ---------------------------------------------------------------------------------
    def fail(self, reason, node=None):
        raise Untranslatable(reason, self.cur.qualname if self.cur else None, node)

    def fresh(self):
        self.counter += 1
        return "t%d" % self.counter

    def bind_eff(self, ctx, code, ty):
        if not self.eff:
            raise NeedEffect()
        t = self.fresh()
        ctx.binds.append((t, code, True))
        return E(t, ty)

    def field_type(self, sname, attr, node):
        for (f, ty) in self.structs[sname]:
            if f == attr:
                return ty
        self.fail("attribute `%s` is not in the signature table of %s" % (attr, sname), node)

    def inline_do(self, binds, final):
        """one-line block: binds then final"""
        if not binds:
            return final
        last = binds[-1]
        if last[2] and isinstance(last[1], str) and final in ("pure " + last[0], "pure (%s)" % last[0]):
            # `let t ← m; pure t` is `m`
            if len(binds) == 1:
                return atom(last[1])
            binds, final = binds[:-1], last[1]
        parts = []
        for (pat, code, eff) in binds:
            if not isinstance(code, str):
                self.fail("multi-line binding in an inline position")
            parts.append("let %s %s %s" % (pat, "←" if eff else ":=", code))
        if any(b[2] for b in binds) or self.eff:
            return "(do " + "; ".join(parts + [final]) + ")"
        return "(" + "; ".join(parts + [final]) + ")"

    def coerce(self, e, ty, node=None, ctx=None):
        """code of `e` at type `ty` (inserting `some`)"""
        ty_r, et = resolve(ty), resolve(e.ty)
        if isinstance(ty_r, tuple) and ty_r[0] == "opt" and not (isinstance(et, tuple) and et[0] == "opt") \
                and not isinstance(et, TVar):
            if not unify(ty_r[1], et):
                self.fail("type mismatch: %s expected, %s found" % (lean_type(ty_r), lean_type(et)), node)
            return "some " + atom(typed(e))
        if ctx is not None and isinstance(et, tuple) and et[0] == "opt" and not (isinstance(ty_r, tuple) and ty_r[0] == "opt") \
                and not isinstance(ty_r, TVar):
            # a possibly-None value where the callee uses it as a non-None value: TypeError when None
            if not unify(ty_r, et[1]):
                self.fail("type mismatch: %s expected, %s found" % (lean_type(ty_r), lean_type(et)), node)
            return self.bind_eff(ctx, "Py.notNone %s" % atom(e.code), ty_r).code
        if not unify(ty, e.ty):
            self.fail("type mismatch: %s expected, %s found" % (lean_type(ty_r), lean_type(et)), node)
        return typed(e)

    def truthy(self, e, node=None):
        t = resolve(e.ty)
        if t == BOOL:
            return e
        if t == INT:
            return E("decide (%s ≠ 0)" % e.code, BOOL, "%s ≠ 0" % e.code)
        if isinstance(t, tuple) and t[0] == "opt":
            inner = resolve(t[1])
            if inner == BOOL:
                return E("%s == some true" % atom(e.code), BOOL, "%s = some true" % atom(e.code))
            if inner == INT:
                return E("%s.any (fun v => decide (v ≠ 0))" % atom(e.code), BOOL)
            if isinstance(inner, tuple) and inner[0] == "struct":
                return E("%s.isSome" % atom(e.code), BOOL)
            self.fail("truth value of a %s" % lean_type(t), node)
        if isinstance(t, tuple) and t[0] in ("list", "dict"):
            return E("!%s.isEmpty" % atom(e.code), BOOL)
        if isinstance(t, tuple) and t[0] == "struct":
            return E("true", BOOL, "True")
        self.fail("truth value of a %s" % lean_type(t), node)

    # -- expressions -----------------------------------------------------------------------------
    def ex(self, node, env, ctx):
        m = getattr(self, "ex_" + type(node).__name__, None)
        if m is None:
            self.fail("expression `%s` (%s) is outside the supported subset" % (ast.unparse(node), type(node).__name__), node)
        return m(node, env, ctx)

    def ex_Constant(self, node, env, ctx):
        v = node.value
        if v is True or v is False:
            return E("true" if v else "false", BOOL, "True" if v else "False")
        if v is None:
            return E("none", Opt(TVar()))
        if type(v) is int:
            return E(str(v) if v >= 0 else "(%d)" % v, INT)
        if isinstance(v, str):
            e = E("[" + ", ".join(char_lit(c) for c in v) + "]", Lst(CHAR))
            e.const_str = v
            return e
        self.fail("literal %r" % (v,), node)

    def ex_Name(self, node, env, ctx):
        n = node.id
        if n in env.narrow:
            ln, ty = env.narrow[n]
            return E(ln, ty)
        if n in env.vars:
            if n == "self":
                ctx.self_read = True
            return E(lname(n), env.vars[n])
        return self.module_const(n, node)

    def module_const(self, name, node, sub=None):
        found = self.src.module_constant(self.cur.file, name)
        if found is None:
            self.fail("name `%s` is neither a local variable nor a module constant" % name, node)
        rel, value = found
        lean = name
        if sub is not None:
            if not isinstance(value, ast.Dict):
                self.fail("`%s[%r]`: `%s` is not a dict literal" % (name, sub, name), node)
            hit = [v for k, v in zip(value.keys, value.values) if isinstance(k, ast.Constant) and k.value == sub]
            if len(hit) != 1:
                self.fail("`%s[%r]`: key not found" % (name, sub), node)
            value = hit[0]
            lean = "%s_%s" % (name, re.sub(r"\W", "_", str(sub)))
        if lean not in self.const_defs:
            saved = (self.eff, self.cur)
            self.eff = False
            try:
                cctx = Ctx()
                stub = Target(rel, self.cur.qualname, [])
                self.cur = stub
                e = self.ex(value, Env(), cctx)
                if cctx.binds:
                    self.fail("module constant `%s` is not a constant expression" % name, node)
            except NeedEffect:
                self.eff, self.cur = saved
                self.fail("module constant `%s` is not a constant expression" % name, node)
            finally:
                self.eff, self.cur = saved
            self.const_defs[lean] = (e.code, e.ty, "%s: `%s`" % (rel, ast.unparse(value)))
        code, ty, _ = self.const_defs[lean]
        return E(lname(lean), ty)

    def ex_UnaryOp(self, node, env, ctx):
        if isinstance(node.op, ast.USub):
            a = self.ex(node.operand, env, ctx)
            if not unify(a.ty, INT):
                self.fail("unary minus on a non-int", node)
            return E("-" + atom(a.code), INT)
        if isinstance(node.op, ast.Not):
            a = self.truthy(self.ex(node.operand, env, ctx), node)
            return E("!" + atom(a.code), BOOL, "¬ " + atom(a.as_prop()))
        self.fail("unary operator %s" % type(node.op).__name__, node)

    def ex_BinOp(self, node, env, ctx):
        op = node.op
        # [v] * n
        if isinstance(op, ast.Mult) and isinstance(node.left, ast.List) and len(node.left.elts) == 1:
            v = self.ex(node.left.elts[0], env, ctx)
            n = self.ex(node.right, env, ctx)
            if not unify(n.ty, INT):
                self.fail("list repetition count is not an int", node)
            return E("Py.replicate %s %s" % (atom(n.code), atom(typed(v))), Lst(v.ty))
        a = self.ex(node.left, env, ctx)
        b = self.ex(node.right, env, ctx)
        ta, tb = resolve(a.ty), resolve(b.ty)
        if isinstance(op, ast.Add) and isinstance(ta, tuple) and ta[0] == "list" and resolve(ta[1]) == CHAR and tb == CHAR:
            # `chars += c` with a one-character string c
            return E("%s ++ [%s]" % (atom(a.code), b.code), a.ty)
        if isinstance(op, ast.Add) and isinstance(ta, tuple) and ta[0] == "list":
            if not unify(a.ty, b.ty):
                self.fail("list concatenation of different types", node)
            return E("%s ++ %s" % (atom(a.code), atom(b.code)), a.ty)
        if ta == U64 and tb == U64:
            sym = {ast.Add: "+", ast.Mult: "*", ast.Sub: "-", ast.BitAnd: "&&&", ast.RShift: ">>>", ast.LShift: "<<<",
                   ast.BitOr: "|||"}.get(type(op))
            if sym is None:
                self.fail("operator %s on uint64 values" % type(op).__name__, node)
            return E("%s %s %s" % (atom(a.code), sym, atom(b.code)), U64)
        if ta == U64 or tb == U64:
            self.fail("mixed uint64 / int arithmetic in `%s` (numpy would promote to float64)" % ast.unparse(node), node)
        a, b = self.as_int(a, ctx), self.as_int(b, ctx)
        if not (unify(a.ty, INT) and unify(b.ty, INT)):
            self.fail("operator %s on non-int operands in `%s`" % (type(op).__name__, ast.unparse(node)), node)
        sym = {ast.Add: "+", ast.Sub: "-", ast.Mult: "*"}.get(type(op))
        if sym:
            return E("%s %s %s" % (atom(a.code), sym, atom(b.code)), INT)
        if isinstance(op, (ast.FloorDiv, ast.Mod)):
            cv = const_value(node.right)
            pure_name, eff_name = ("Int.fdiv", "Py.floordiv") if isinstance(op, ast.FloorDiv) else ("Int.fmod", "Py.mod")
            if cv is not None and cv != 0:
                return E("%s %s %s" % (pure_name, atom(a.code), atom(b.code)), INT)
            return self.bind_eff(ctx, "%s %s %s" % (eff_name, atom(a.code), atom(b.code)), INT)
        if isinstance(op, ast.Pow):
            cv = const_value(node.right)
            if cv is None or cv < 0:
                self.fail("`**` with a non-constant or negative exponent", node)
            return E("%s ^ %d" % (atom(a.code), cv), INT)
        if isinstance(op, (ast.LShift, ast.RShift)):
            cv = const_value(node.right)
            if cv is None or cv < 0:
                self.fail("shift by a non-constant or negative count", node)
            return E("%s %s %d" % ("Py.shl" if isinstance(op, ast.LShift) else "Py.shr", atom(a.code), cv), INT)
        if isinstance(op, ast.BitAnd):
            return E("Py.band %s %s" % (atom(a.code), atom(b.code)), INT)
        self.fail("operator %s is outside the supported subset (`%s`)" % (type(op).__name__, ast.unparse(node)), node)

    def char_const(self, e, other):
        """a one-character string literal compared with / appended to a character is that character"""
        ot = resolve(other.ty)
        if isinstance(ot, tuple) and ot[0] == "opt":
            ot = resolve(ot[1])
        if getattr(e, "const_str", None) is not None and len(e.const_str) == 1 and ot == CHAR:
            return E(char_lit(e.const_str), CHAR)
        return e

    def as_int(self, e, ctx):
        """`None` used as a number raises TypeError"""
        t = resolve(e.ty)
        if isinstance(t, tuple) and t[0] == "opt" and resolve(t[1]) == INT:
            return self.bind_eff(ctx, "Py.notNone %s" % atom(e.code), INT)
        return e

    def ex_BoolOp(self, node, env, ctx):
        is_and = isinstance(node.op, ast.And)
        first = self.truthy(self.ex(node.values[0], env, ctx), node)
        acc = first
        for v in node.values[1:]:
            sub = Ctx()
            b = self.truthy(self.ex(v, env, sub), node)
            if sub.binds:
                # the operand can raise: keep the short circuit
                inner = self.inline_do(sub.binds, "pure " + atom(b.code))
                if is_and:
                    code = "(if %s then %s else pure false)" % (acc.as_prop(), inner)
                else:
                    code = "(if %s then pure true else %s)" % (acc.as_prop(), inner)
                acc = self.bind_eff(ctx, code, BOOL)
            elif is_and and b.code == "true":
                pass      # an object is always true
            elif is_and:
                acc = E("%s && %s" % (atom(acc.code), atom(b.code)), BOOL, "%s ∧ %s" % (atom(acc.as_prop()), atom(b.as_prop())))
            else:
                acc = E("%s || %s" % (atom(acc.code), atom(b.code)), BOOL, "%s ∨ %s" % (atom(acc.as_prop()), atom(b.as_prop())))
        return acc

    def none_test(self, node):
        """(expr, is_none) when `node` is `expr is None` / `expr is not None`"""
        if isinstance(node, ast.Compare) and len(node.ops) == 1 and isinstance(node.ops[0], (ast.Is, ast.IsNot)) \
                and isinstance(node.comparators[0], ast.Constant) and node.comparators[0].value is None:
            return node.left, isinstance(node.ops[0], ast.Is)
        return None

    def ex_Compare(self, node, env, ctx):
        nt = self.none_test(node)
        if nt:
            x = self.ex(nt[0], env, ctx)
            t = resolve(x.ty)
            if not (isinstance(t, tuple) and t[0] == "opt"):
                self.fail("`%s`: the operand is never None according to the signature table" % ast.unparse(node), node)
            f = "isNone" if nt[1] else "isSome"
            return E("%s.%s" % (atom(x.code), f), BOOL)
        operands = [self.ex(node.left, env, ctx)] + [None] * len(node.comparators)
        props = []
        for i, (op, rn) in enumerate(zip(node.ops, node.comparators)):
            left = operands[i]
            if isinstance(op, (ast.In, ast.NotIn)):
                if not isinstance(rn, (ast.Tuple, ast.List)):
                    self.fail("`in` is only supported with a literal tuple on the right", node)
                alts = [self.ex(c, env, ctx) for c in rn.elts]
                for c in alts:
                    if not unify(left.ty, c.ty):
                        self.fail("`in`: element types differ", node)
                p = " ∨ ".join("%s = %s" % (atom(left.code), atom(c.code)) for c in alts) or "False"
                props.append(p if isinstance(op, ast.In) else "¬ (%s)" % p)
                operands[i + 1] = left
                continue
            right = self.ex(rn, env, ctx)
            operands[i + 1] = right
            sym = {ast.Eq: "=", ast.NotEq: "≠", ast.Lt: "<", ast.LtE: "≤", ast.Gt: ">", ast.GtE: "≥"}.get(type(op))
            if sym is None:
                self.fail("comparison %s" % type(op).__name__, node)
            if sym not in ("=", "≠"):
                left, right = self.as_int(left, ctx), self.as_int(right, ctx)
                operands[i + 1] = right
            left, right = self.char_const(left, right), self.char_const(right, left)
            operands[i + 1] = right
            lt, rt = resolve(left.ty), resolve(right.ty)
            l_opt = isinstance(lt, tuple) and lt[0] == "opt"
            r_opt = isinstance(rt, tuple) and rt[0] == "opt"
            if sym in ("=", "≠") and l_opt != r_opt and not isinstance(lt, TVar) and not isinstance(rt, TVar):
                # `x == v` with x possibly None: equal only when x is that value
                if l_opt and unify(lt[1], right.ty):
                    props.append("%s %s some %s" % (atom(left.code), sym, atom(typed(right))))
                    continue
                if r_opt and unify(rt[1], left.ty):
                    props.append("some %s %s %s" % (atom(typed(left)), sym, atom(right.code)))
                    continue
            if not unify(left.ty, right.ty):
                self.fail("comparison of different types in `%s`" % ast.unparse(node), node)
            t = resolve(left.ty)
            if sym not in ("=", "≠") and t != INT:
                self.fail("ordering comparison on non-ints in `%s`" % ast.unparse(node), node)
            if isinstance(t, tuple) and t[0] in ("struct", "abstract"):
                self.fail("equality of objects in `%s`" % ast.unparse(node), node)
            props.append("%s %s %s" % (atom(left.code), sym, atom(right.code)))
        prop = props[0] if len(props) == 1 else " ∧ ".join(atom(p) for p in props)
        return E("decide (%s)" % prop, BOOL, prop)

    def ex_IfExp(self, node, env, ctx):
        lines, ty, eff = self.cond_lines(node.test, env, ctx,
                                         lambda e, c: self.ex(node.body, e, c),
                                         lambda e, c: self.ex(node.orelse, e, c), node)
        t = self.fresh()
        if len(lines) == 1 and not eff:
            self.counter -= 1
            return E(lines[0][1], ty)
        if eff and not self.eff:
            raise NeedEffect()
        ctx.binds.append((t if _has_tvar(resolve(ty)) else "%s : %s" % (t, lean_type(ty)), lines, eff))
        return E(t, ty)

    def cond_lines(self, test, env, ctx, then_fn, else_fn, node):
        """lines of a conditional EXPRESSION; both branches give a value of the same type.
        returns (lines, type, effectful)"""
        result_ty = TVar()
        state = {"eff": False}

        def leaf(fn):
            def k(e):
                sub = Ctx()
                v = fn(e, sub)
                if not unify(result_ty, v.ty):
                    # T and None
                    vt, rt = resolve(v.ty), resolve(result_ty)
                    self.fail("branches of `%s` have different types" % ast.unparse(node), node)
                return (sub, v)
            return k

        def render(pair_fn, e):
            sub, v = pair_fn(e)
            if sub.binds:
                if any(b[2] for b in sub.binds):
                    state["eff"] = True
                return ("binds", sub, v)
            return ("pure", sub, v)

        # two passes: first find out whether any leaf is effectful, then emit
        leaves = []
        tree = self.cond_tree(test, env, ctx, lambda e: leaves.append(render(leaf(then_fn), e)) or len(leaves) - 1,
                              lambda e: leaves.append(render(leaf(else_fn), e)) or len(leaves) - 1)
        eff = state["eff"]
        if eff and not self.eff:
            raise NeedEffect()

        def leaf_lines(i):
            kind, sub, v = leaves[i]
            out = []
            for b in sub.binds:
                out += self.bind_lines(b)
            out += L(("pure " + atom(typed(v))) if eff else typed(v))
            return out

        lines = self.render_tree(tree, leaf_lines, eff)
        if len(lines) == 3 and lines[0][1].startswith("if ") and all(len(x[1]) < 60 for x in lines) and not eff:
            # if c then / a / else b  -> one line
            pass
        if not eff and all(len(leaves[i][1].binds) == 0 for i in range(len(leaves))) and tree[0] == "if" \
                and isinstance(tree[2], int) and isinstance(tree[3], int):
            return L("if %s then %s else %s" % (tree[1], typed(leaves[tree[2]][2]), typed(leaves[tree[3]][2]))), result_ty, False
        return lines, result_ty, eff

    def bind_lines(self, b):
        pat, code, eff = b
        arrow = "←" if eff else ":="
        if isinstance(code, str):
            return L("let %s %s %s" % (pat, arrow, code))
        return L("let %s %s" % (pat, arrow)) + ind(code)

    # decision trees: ("if", prop, T, F) | ("match", scrutinee, bound name, T_none, F_some) | leaf
    def cond_tree(self, test, env, ctx, on_true, on_false):
        if isinstance(test, ast.UnaryOp) and isinstance(test.op, ast.Not) and self.has_none_test(test.operand):
            return self.cond_tree(test.operand, env, ctx, on_false, on_true)
        if isinstance(test, ast.BoolOp) and self.has_none_test(test):
            head, rest = test.values[0], test.values[1:]
            rest_node = rest[0] if len(rest) == 1 else ast.BoolOp(op=test.op, values=rest)
            if isinstance(test.op, ast.Or):
                return self.cond_tree(head, env, ctx, on_true,
                                      lambda e: self.cond_tree(rest_node, e, None, on_true, on_false))
            return self.cond_tree(head, env, ctx, lambda e: self.cond_tree(rest_node, e, None, on_true, on_false),
                                  on_false)
        nt = self.none_test(test)
        if nt is not None:
            key = ast.unparse(nt[0])
            if key in env.narrow:
                # already known not to be None here
                return on_false(env) if nt[1] else on_true(env)
            sub = ctx if ctx is not None else Ctx()
            x = self.ex(nt[0], env, sub)
            if ctx is None and sub.binds:
                self.fail("`%s` can raise in a short-circuit position" % key, test)
            t = resolve(x.ty)
            if not (isinstance(t, tuple) and t[0] == "opt"):
                self.fail("`%s`: the operand is never None according to the signature table" % ast.unparse(test), test)
            bound = nt[0].id if isinstance(nt[0], ast.Name) else self.narrow_name(key, env, test)
            e_some = env.copy()
            e_some.narrow[key] = (lname(bound), t[1])
            none_branch = (on_true if nt[1] else on_false)(env)
            some_branch = (on_false if nt[1] else on_true)(e_some)
            return ("match", x.code, lname(bound), none_branch, some_branch)
        sub = ctx if ctx is not None else Ctx()
        c = self.truthy(self.ex(test, env, sub), test)
        if ctx is None and sub.binds:
            self.fail("`%s` can raise in a short-circuit position next to a None test" % ast.unparse(test), test)
        return ("if", c.as_prop(), on_true(env), on_false(env))

    def narrow_name(self, key, env, node):
        """Lean name for the non-None value of the expression with source text `key`"""
        n = re.sub(r"\W+", "_", key).strip("_")
        if n in env.vars:
            self.fail("local variable `%s` clashes with the name used for `%s`" % (n, key), node)
        return n

    def has_none_test(self, node):
        return any(self.none_test(n) is not None for n in ast.walk(node))

    def render_tree(self, tree, leaf_lines, eff):
        if not isinstance(tree, tuple):
            return leaf_lines(tree)
        if tree[0] == "if":
            t_lines = self.render_tree(tree[2], leaf_lines, eff)
            f_lines = self.render_tree(tree[3], leaf_lines, eff)
            return self.if_lines(tree[1], t_lines, f_lines, eff)
        _, scrut, bound, n_lines, s_lines = tree
        n_lines = self.peephole(self.render_tree(n_lines, leaf_lines, eff))
        s_lines = self.peephole(self.render_tree(s_lines, leaf_lines, eff))
        return L("match %s with" % scrut) + L("| none =>") + ind(n_lines) + L("| some %s =>" % bound) + ind(s_lines)

    @staticmethod
    def peephole(lines):
        """`let x := e` / `x`  ->  `e`;   `let t ← m` / `pure t`  ->  `m`"""
        if len(lines) == 2 and lines[0][0] == lines[1][0] and isinstance(lines[0][1], str) and isinstance(lines[1][1], str):
            m = re.fullmatch(r"let ([\w«»']+)(?: : [^:=←]+)? (:=|←) (.*)", lines[0][1])
            if m:
                n, arrow, rhs = m.group(1), m.group(2), m.group(3)
                last = lines[1][1]
                if arrow == ":=" and n != "self":
                    for tmpl in ("%s", "pure %s", "some %s", "pure (some %s)"):
                        if last == tmpl % n:
                            return [(lines[0][0], tmpl % atom(rhs) if tmpl != "%s" else rhs)]
                elif arrow == "←" and last == "pure %s" % n:
                    return [(lines[0][0], rhs)]
        return lines

    def if_lines(self, prop, t_lines, f_lines, eff):
        t_lines, f_lines = self.peephole(t_lines), self.peephole(f_lines)
        out = L("if %s then" % prop) + ind(t_lines)
        if f_lines and f_lines[0][0] == 0 and f_lines[0][1].startswith("if ") and not any(
                i == 0 and not (t.startswith("else") or t.startswith("if ")) for (i, t) in f_lines):
            # else if …
            return out + [(0, "else " + f_lines[0][1])] + f_lines[1:]
        return out + L("else") + ind(f_lines)

    # -- attributes, subscripts, containers --------------------------------------------------------
    def ex_Attribute(self, node, env, ctx):
        key = ast.unparse(node)
        if key in env.narrow:
            ln, ty = env.narrow[key]
            return E(ln, ty)
        v = self.ex(node.value, env, ctx)
        t = resolve(v.ty)
        if isinstance(t, tuple) and t[0] == "opt" and isinstance(resolve(t[1]), tuple) and resolve(t[1])[0] == "struct":
            # attribute of a possibly-None object
            v = self.bind_eff(ctx, "Py.attr %s" % atom(v.code), t[1])
            t = resolve(t[1])
        if not (isinstance(t, tuple) and t[0] == "struct"):
            self.fail("attribute `.%s` of a %s (`%s`)" % (node.attr, lean_type(t), key), node)
        fty = self.field_type(t[1], node.attr, node)
        if (t[1], node.attr) in ABSENT_ATTR:
            # the attribute does not exist on some objects of this structure: AttributeError
            return self.bind_eff(ctx, "Py.attr %s.%s" % (atom(v.code), lname(node.attr)), resolve(fty)[1])
        return E("%s.%s" % (atom(v.code), lname(node.attr)), fty)

    def ex_Tuple(self, node, env, ctx):
        es = [self.ex(x, env, ctx) for x in node.elts]
        return E("(" + ", ".join(typed(e) for e in es) + ")", Tup(*[e.ty for e in es]))

    def ex_List(self, node, env, ctx):
        es = [self.ex(x, env, ctx) for x in node.elts]
        ty = TVar()
        for e in es:
            if not unify(ty, e.ty):
                self.fail("list literal with elements of different types", node)
        return E("[" + ", ".join(typed(e) for e in es) + "]", Lst(ty))

    def ex_Dict(self, node, env, ctx):
        if not node.keys:
            return E("[]", Dct(TVar(), TVar()))
        kt, vt = TVar(), TVar()
        parts = []
        seen = set()
        for k, v in zip(node.keys, node.values):
            if k is None or not isinstance(k, ast.Constant) or k.value in seen:
                self.fail("dict literal with computed, repeated or `**` keys", node)
            seen.add(k.value)
            ke, ve = self.ex(k, env, ctx), self.ex(v, env, ctx)
            if not (unify(kt, ke.ty) and unify(vt, ve.ty)):
                self.fail("dict literal with entries of different types", node)
            parts.append("(%s, %s)" % (typed(ke), typed(ve)))
        return E("[" + ", ".join(parts) + "]", Dct(kt, vt))

    def ex_Subscript(self, node, env, ctx):
        key = ast.unparse(node)
        if key in env.narrow:
            ln, ty = env.narrow[key]
            return E(ln, ty)
        # module level dict literal with a constant key
        if isinstance(node.value, ast.Name) and node.value.id not in env.vars and isinstance(node.slice, ast.Constant):
            return self.module_const(node.value.id, node, sub=node.slice.value)
        v = self.ex(node.value, env, ctx)
        t = resolve(v.ty)
        if isinstance(node.slice, ast.Slice) and isinstance(t, tuple) and t[0] == "abstract" \
                and ("[::]", t[1]) in self.cur.abstract and node.slice.lower is None and node.slice.upper is None \
                and node.slice.step is not None:
            lean, fty = self.cur.abstract[("[::]", t[1])][:2]
            self.used_abstract.add(lean)
            st = self.ex(node.slice.step, env, ctx)
            return E("%s %s %s" % (lean, atom(v.code), atom(self.coerce(st, INT, node))), fty[2])
        if isinstance(node.slice, ast.Slice):
            if not (isinstance(t, tuple) and t[0] == "list"):
                self.fail("slice of a %s" % lean_type(t), node)
            if node.slice.step is not None:
                self.fail("slice with a step", node)
            lo = self.ex(node.slice.lower, env, ctx) if node.slice.lower is not None else E("0", INT)
            hi = self.ex(node.slice.upper, env, ctx) if node.slice.upper is not None else E("Py.len %s" % atom(v.code), INT)
            if not (unify(lo.ty, INT) and unify(hi.ty, INT)):
                self.fail("slice bounds must be ints", node)
            return E("Py.slice %s %s %s" % (atom(v.code), atom(lo.code), atom(hi.code)), v.ty)
        if isinstance(t, tuple) and t[0] == "tuple":
            cv = const_value(node.slice)
            n = len(t[1])
            if cv is None or not (0 <= cv < n):
                self.fail("tuple index must be a constant in range", node)
            proj = ".2" * cv + (".1" if cv < n - 1 else "")
            return E(atom(v.code) + proj, t[1][cv])
        i = self.ex(node.slice, env, ctx)
        if isinstance(t, tuple) and t[0] == "list":
            if not unify(i.ty, INT):
                self.fail("list index is not an int", node)
            return self.bind_eff(ctx, "Py.index %s %s" % (atom(v.code), atom(i.code)), t[1])
        if isinstance(t, tuple) and t[0] == "dict":
            if not unify(i.ty, t[1]):
                self.fail("dict key type", node)
            return self.bind_eff(ctx, "Py.Dict.getE %s %s" % (atom(v.code), atom(i.code)), t[2])
        self.fail("subscript of a %s (`%s`)" % (lean_type(t), key), node)

    # -- comprehensions ----------------------------------------------------------------------------
    def pattern(self, target, ty, env, node):
        """Lean pattern and extended environment for a `for` / comprehension target"""
        ty = resolve(ty)
        if isinstance(target, ast.Name):
            return lname(target.id), env.assign(target.id, ty)
        if isinstance(target, ast.Tuple):
            if not (isinstance(ty, tuple) and ty[0] == "tuple" and len(ty[1]) == len(target.elts)):
                self.fail("cannot unpack a %s into %d names" % (lean_type(ty), len(target.elts)), node)
            parts = []
            for sub, sty in zip(target.elts, ty[1]):
                p, env = self.pattern(sub, sty, env, node)
                parts.append(p)
            return "(" + ", ".join(parts) + ")", env
        self.fail("loop target `%s`" % ast.unparse(target), node)

    def iterable(self, node, env, ctx):
        """a Python iterable as a Lean list: (code, element type)"""
        if isinstance(node, ast.Call) and isinstance(node.func, ast.Attribute) and node.func.attr == "items" and not node.args:
            d = self.ex(node.func.value, env, ctx)
            t = resolve(d.ty)
            if isinstance(t, tuple) and t[0] == "dict":
                return d.code, Tup(t[1], t[2])
        e = self.ex(node, env, ctx)
        t = resolve(e.ty)
        if isinstance(t, tuple) and t[0] == "list":
            return e.code, t[1]
        self.fail("cannot iterate over a %s (`%s`)" % (lean_type(t), ast.unparse(node)), node)

    def lam(self, pat, env2, body_fn):
        """`fun pat => body`, pure when possible: (code, E of the body, effectful)"""
        saved = (self.eff, self.counter)
        try:
            self.eff = False
            sub = Ctx()
            e = body_fn(env2, sub)
            return "fun %s => %s" % (pat, self.inline_do(sub.binds, typed(e))), e, False
        except NeedEffect:
            pass
        finally:
            self.eff = saved[0]
        self.counter = saved[1]
        if not self.eff:
            raise NeedEffect()
        sub = Ctx()
        e = body_fn(env2, sub)
        return "fun %s => %s" % (pat, self.inline_do(sub.binds, "pure " + atom(typed(e)))), e, True

    def comp_parts(self, node, env, ctx):
        if len(node.generators) != 1 or node.generators[0].is_async:
            self.fail("comprehension with more than one `for`", node)
        g = node.generators[0]
        it_code, elt_ty = self.iterable(g.iter, env, ctx)
        pat, env2 = self.pattern(g.target, elt_ty, env, node)
        return g, it_code, elt_ty, pat, env2

    def comp_filtered(self, node, env, ctx):
        """the iterated list after the `if` clauses: (code, elt type, pattern, env)"""
        g, it_code, elt_ty, pat, env2 = self.comp_parts(node, env, ctx)
        code = it_code
        for cond in g.ifs:
            f, _, eff = self.lam(pat, env2, lambda e, c, cond=cond: self.truthy(self.ex(cond, e, c), cond))
            if eff:
                code = self.bind_eff(ctx, "Py.filterE %s (%s)" % (atom(code), f), Lst(elt_ty)).code
            else:
                code = "List.filter (%s) %s" % (f, atom(code))
        return code, elt_ty, pat, env2

    def comp_list(self, node, env, ctx):
        code, elt_ty, pat, env2 = self.comp_filtered(node, env, ctx)
        if isinstance(node.elt, ast.Name) and isinstance(node.generators[0].target, ast.Name) \
                and node.elt.id == node.generators[0].target.id:
            return E(code, Lst(elt_ty))
        f, e, eff = self.lam(pat, env2, lambda en, c: self.ex(node.elt, en, c))
        if eff:
            return self.bind_eff(ctx, "Py.mapE %s (%s)" % (atom(code), f), Lst(e.ty))
        return E("List.map (%s) %s" % (f, atom(code)), Lst(e.ty))

    def ex_DictComp(self, node, env, ctx):
        """`{k: f(v) for (k, v) in d.items()}`: the keys are kept, so it is a map over the entries"""
        if len(node.generators) != 1 or node.generators[0].ifs:
            self.fail("dict comprehension with filters or several `for`s", node)
        g = node.generators[0]
        it_code, elt_ty = self.iterable(g.iter, env, ctx)
        et = resolve(elt_ty)
        if not (isinstance(g.target, ast.Tuple) and len(g.target.elts) == 2 and isinstance(g.target.elts[0], ast.Name)
                and isinstance(node.key, ast.Name) and node.key.id == g.target.elts[0].id
                and isinstance(et, tuple) and et[0] == "tuple"):
            self.fail("dict comprehension that does not keep the keys of `d.items()`", node)
        pat, env2 = self.pattern(g.target, elt_ty, env, node)
        kname = lname(node.key.id)
        f, e, eff = self.lam(pat, env2, lambda en, c: E("(%s, %s)" % (kname, typed(self.ex(node.value, en, c))), TVar()))
        vt = TVar()
        # type of the values: translate once more for the type only (cheap)
        sub = Ctx()
        saved = (self.eff, self.counter)
        try:
            self.eff = True
            vt = self.ex(node.value, env2, sub).ty
        finally:
            self.eff, self.counter = saved
        if eff:
            return self.bind_eff(ctx, "Py.mapE %s (%s)" % (atom(it_code), f), Dct(et[1][0], vt))
        return E("List.map (%s) %s" % (f, atom(it_code)), Dct(et[1][0], vt))

    ex_ListComp = comp_list
    ex_GeneratorExp = comp_list

    def comp_quant(self, node, env, ctx, is_any):
        """`any(elt for x in xs if c)` = exists x, c and elt (evaluated in that order, stopping at the first hit);
        `all(elt for x in xs if c)` = for all x, not c or elt"""
        g, it_code, elt_ty, pat, env2 = self.comp_parts(node, env, ctx)
        conj = list(g.ifs)
        if is_any:
            body = ast.BoolOp(op=ast.And(), values=conj + [node.elt]) if conj else node.elt
        else:
            guard = conj[0] if len(conj) == 1 else ast.BoolOp(op=ast.And(), values=conj)
            body = ast.BoolOp(op=ast.Or(), values=[ast.UnaryOp(op=ast.Not(), operand=guard), node.elt]) if conj else node.elt
        ast.copy_location(body, node)
        ast.fix_missing_locations(body)
        f, e, eff = self.lam(pat, env2, lambda en, c: self.truthy(self.ex(body, en, c), node))
        if eff:
            return self.bind_eff(ctx, "%s %s (%s)" % ("Py.anyE" if is_any else "Py.allE", atom(it_code), f), BOOL)
        return E("%s %s (%s)" % ("List.any" if is_any else "List.all", atom(it_code), f), BOOL)

    # -- calls -------------------------------------------------------------------------------------
    def ex_Call(self, node, env, ctx):
        fn = node.func
        fname = ast.unparse(fn)
        if node.keywords and fname != "np.searchsorted" and fname not in self.cur.abstract:
            self.fail("keyword arguments in `%s`" % ast.unparse(node), node)
        args = node.args
        is_comp = lambda a: isinstance(a, (ast.GeneratorExp, ast.ListComp))
        if isinstance(fn, ast.Name) and fn.id not in env.vars:
            n = fn.id
            if n == "zip_longest" and len(args) == 2 and isinstance(args[1], ast.Subscript) \
                    and isinstance(args[1].slice, ast.Slice) and ast.unparse(args[1].value) == ast.unparse(args[0]) \
                    and const_value(args[1].slice.lower) == 1 and args[1].slice.upper is None and args[1].slice.step is None:
                # the idiom zip_longest(xs, xs[1:]): every element with its successor (None after the last)
                code, ety = self.iterable(args[0], env, ctx)
                return E("Py.pairsWithNext %s" % atom(code), Lst(Tup(ety, Opt(ety))))
            if n == "next" and len(args) == 1 and isinstance(args[0], ast.Name) and args[0].id in env.vars:
                self.fail("`next(%s)` on an iterator variable is only supported as a statement or the right-hand side "
                          "of an assignment" % args[0].id, node)
            if n == "next" and len(args) == 1:
                code, ety = self.iterable(args[0], env, ctx)
                return self.bind_eff(ctx, "Py.next %s" % atom(code), ety)
            if n == "len" and len(args) == 1:
                v = self.ex(args[0], env, ctx)
                t = resolve(v.ty)
                if isinstance(t, tuple) and t[0] in ("abstract", "struct") and ("len", t[1]) in self.cur.abstract:
                    return self.call_abstract(("len", t[1]), [], env, ctx, node, recv=v)
                if not (isinstance(t, tuple) and t[0] in ("list", "dict")):
                    self.fail("len of a %s" % lean_type(t), node)
                return E("Py.len %s" % atom(v.code), INT)
            if n == "int" and len(args) == 1:
                v = self.ex(args[0], env, ctx)
                if not unify(v.ty, INT):
                    self.fail("int() of a non-int", node)
                return v
            if n == "abs" and len(args) == 1:
                v = self.ex(args[0], env, ctx)
                if not unify(v.ty, INT):
                    self.fail("abs() of a non-int", node)
                return E("((%s).natAbs : Int)" % v.code, INT)
            if n == "copy" and len(args) == 1:
                v = self.ex(args[0], env, ctx)
                r = E(v.code, v.ty, v.prop)
                r.fresh = True
                return r
            if n in ("any", "all") and len(args) == 1 and is_comp(args[0]):
                return self.comp_quant(args[0], env, ctx, n == "any")
            if n == "sum" and len(args) == 1:
                v = self.ex(args[0], env, ctx)
                if not unify(v.ty, Lst(INT)):
                    self.fail("sum of a non-int sequence", node)
                return E("Py.sum %s" % atom(v.code), INT)
            if n in ("min", "max"):
                if len(args) == 1:
                    v = self.ex(args[0], env, ctx)
                    if not unify(v.ty, Lst(INT)):
                        self.fail("%s of a non-int sequence" % n, node)
                    return self.bind_eff(ctx, "Py.%sE %s" % (n, atom(v.code)), INT)
                es = [self.ex(a, env, ctx) for a in args]
                if not all(unify(e.ty, INT) for e in es):
                    self.fail("%s of non-ints" % n, node)
                code = atom(typed(es[0]))
                for e in es[1:]:
                    code = "(%s %s %s)" % (n, code, atom(typed(e)))
                return E(code, INT)
            if n == "set" and len(args) == 1:
                v = self.ex(args[0], env, ctx)
                return E("Py.toSet %s" % atom(v.code), v.ty)
            if n == "list" and len(args) == 1:
                code, ety = self.iterable(args[0], env, ctx)
                return E(code, Lst(ety))
            if n == "enumerate" and len(args) == 1:
                code, ety = self.iterable(args[0], env, ctx)
                return E("Py.enumerate %s" % atom(code), Lst(Tup(INT, ety)))
            if n == "zip" and len(args) == 2:
                c1, t1 = self.iterable(args[0], env, ctx)
                c2, t2 = self.iterable(args[1], env, ctx)
                return E("Py.zip %s %s" % (atom(c1), atom(c2)), Lst(Tup(t1, t2)))
            if n == "range" and len(args) == 1:
                v = self.ex(args[0], env, ctx)
                if not unify(v.ty, INT):
                    self.fail("range of a non-int", node)
                return E("Py.range %s" % atom(v.code), Lst(INT))
            if n == "isinstance" and len(args) == 2 and isinstance(args[1], ast.Name):
                v = self.ex(args[0], env, ctx)
                t = resolve(v.ty)
                fld = ISINSTANCE.get((t[1], args[1].id)) if isinstance(t, tuple) and t[0] == "struct" else None
                if fld is None:
                    self.fail("`%s` is not in the isinstance table" % ast.unparse(node), node)
                return E("%s.%s" % (atom(v.code), fld), BOOL)
            if n in self.cur.abstract:
                return self.call_abstract(n, args, env, ctx, node)
            if n in CONSTRUCTORS:
                sname, fields = CONSTRUCTORS[n]
                if len(args) != len(fields):
                    self.fail("constructor `%s` with %d arguments" % (n, len(args)), node)
                parts = []
                for f, a in zip(fields, args):
                    e = self.ex(a, env, ctx)
                    parts.append("%s := %s" % (lname(f), self.coerce(e, self.field_type(sname, f, node), node)))
                r = E("{ " + ", ".join(parts) + " : %s }" % lean_type(Struct(sname)), Struct(sname))
                r.fresh = True
                return r
            if n in self.targets:
                return self.call_target(self.targets[n], None, args, env, ctx, node)
            if n in getattr(self.cur, "abstract", {}):
                return self.call_abstract(n, args, env, ctx, node)
            self.fail("call of `%s`, which is neither supported nor translated" % n, node)
        if fname == "np.uint64" and len(args) == 1:
            v = self.ex(args[0], env, ctx)
            if not unify(v.ty, INT):
                self.fail("np.uint64 of a non-int", node)
            return E("Py.u64 %s" % atom(v.code), U64)
        if fname in ("np.minimum", "np.maximum") and len(args) == 2:
            a = self.ex(args[0], env, ctx)
            b = self.ex(args[1], env, ctx)
            if resolve(a.ty) == U64 and resolve(b.ty) == U64:
                return E("%s %s %s" % ("min" if fname == "np.minimum" else "max", atom(a.code), atom(b.code)), U64)
            self.fail("%s on non-uint64 values" % fname, node)
        if fname == "np.searchsorted":
            side = [k.value.value for k in node.keywords if k.arg == "side" and isinstance(k.value, ast.Constant)]
            if len(args) != 2 or len(node.keywords) != len(side) or (side and side[0] not in ("left", "right")):
                self.fail("np.searchsorted call shape", node)
            a = self.ex(args[0], env, ctx)
            v = self.ex(args[1], env, ctx)
            if not (unify(a.ty, Lst(INT)) and unify(v.ty, INT)):
                self.fail("np.searchsorted on non-int data", node)
            f = "Py.searchsortedRight" if side == ["right"] else "Py.searchsortedLeft"
            return E("%s %s %s" % (f, atom(a.code), atom(v.code)), INT)
        if fname in getattr(self.cur, "abstract", {}):
            return self.call_abstract(fname, args, env, ctx, node)
        if isinstance(fn, ast.Attribute):
            if fn.attr == "join" and len(args) == 1:
                sep = self.ex(fn.value, env, ctx)
                xs = self.ex(args[0], env, ctx)
                if unify(sep.ty, Lst(CHAR)) and getattr(sep, "const_str", None) == "" and unify(xs.ty, Lst(CHAR)):
                    return E(xs.code, Lst(CHAR))        # "".join(list of characters)
                if unify(sep.ty, Lst(CHAR)) and unify(xs.ty, Lst(Lst(CHAR))):
                    return E("Py.join %s %s" % (atom(sep.code), atom(xs.code)), Lst(CHAR))
                self.fail("`join` on these types", node)
            if fn.attr == "replace" and len(args) == 2:
                st = self.ex(fn.value, env, ctx)
                old = self.ex(args[0], env, ctx)
                new = self.ex(args[1], env, ctx)
                if unify(st.ty, Lst(CHAR)) and getattr(old, "const_str", None) is not None and len(old.const_str) == 1 \
                        and unify(new.ty, Lst(CHAR)):
                    return E("Py.replaceChar %s %s %s" % (atom(st.code), char_lit(old.const_str), atom(new.code)), Lst(CHAR))
                self.fail("`replace` is only supported for a one-character literal pattern", node)
            if fn.attr == "get" and len(args) in (1, 2):
                d = self.ex(fn.value, env, ctx)
                t = resolve(d.ty)
                if isinstance(t, tuple) and t[0] == "dict":
                    k = self.ex(args[0], env, ctx)
                    if not unify(k.ty, t[1]):
                        self.fail("dict key type", node)
                    if len(args) == 2:
                        dv = self.ex(args[1], env, ctx)
                        return E("Py.Dict.getD %s %s %s" % (atom(d.code), atom(k.code), atom(self.coerce(dv, t[2], node))), t[2])
                    return E("Py.Dict.get? %s %s" % (atom(d.code), atom(k.code)), Opt(t[2]))
            read_before = ctx.self_read
            recv = self.ex(fn.value, env, ctx)
            ctx.self_read_before_call = read_before
            t = resolve(recv.ty)
            if isinstance(t, tuple) and t[0] == "struct" and (t[1], fn.attr) in self.cur.abstract:
                return self.call_abstract((t[1], fn.attr), args, env, ctx, node, recv=recv)
            if isinstance(t, tuple) and t[0] == "struct" and (t[1] + "." + fn.attr) in self.targets:
                return self.call_target(self.targets[t[1] + "." + fn.attr], (fn.value, recv), args, env, ctx, node)
        self.fail("call `%s` is outside the supported subset" % ast.unparse(node), node)

    def call_abstract(self, name, args, env, ctx, node, recv=None):
        lean, fty, sel = self.cur.abstract[name][:3]
        opts = self.cur.abstract[name][3] if len(self.cur.abstract[name]) > 3 else ()
        self.used_abstract.add(lean)
        es = []
        for i in sel:
            if i == "recv":
                es.append(recv)
            else:
                if i >= len(args):
                    self.fail("abstract call `%s`: argument %d is missing" % (name, i), node)
                es.append(self.ex(args[i], env, ctx))
        if len(es) != len(fty[1]):
            self.fail("abstract call `%s`: %d arguments expected" % (name, len(fty[1])), node)
        code = " ".join([lean] + [atom(self.coerce(e, pt, node, ctx)) for e, pt in zip(es, fty[1])])
        r = self.bind_eff(ctx, code, fty[2]) if fty[3] else E(code, fty[2])
        if "fresh" in opts:
            r.fresh = True
        return r

    def call_target(self, callee, recv, args, env, ctx, node):
        if callee.effect is None:
            self.fail("call of `%s` before it is translated (order of TARGETS)" % callee.qualname, node)
        if callee.abstract or callee.type_params:
            self.fail("call of `%s`, which has abstract parameters" % callee.qualname, node)
        es = [self.ex(a, env, ctx) for a in args]
        ptypes = callee.params
        if len(es) != len(ptypes):
            self.fail("call of `%s` with %d arguments, %d expected" % (callee.qualname, len(es), len(ptypes)), node)
        argcodes = [atom(self.coerce(e, pt, node, ctx)) for e, pt in zip(es, ptypes)]
        if recv is not None:
            code = " ".join(["%s.%s" % (atom(recv[1].code), callee.name)] + argcodes)
        else:
            code = " ".join([lname(callee.name)] + argcodes)
        ret = callee.ret if callee.ret is not None else UNIT
        if callee.mutates:
            if not (isinstance(recv[0], ast.Name) and recv[0].id == "self"):
                self.fail("call of a method that mutates an object other than `self`", node)
            if getattr(ctx, "self_read_before_call", False):
                self.fail("`self` is read before a call that updates it in the same statement (evaluation order)", node)
            self.mutates = True
            if callee.ret is None:
                pat, val = "self", E("()", UNIT)
            else:
                t = self.fresh()
                pat, val = "(%s, self)" % t, E(t, ret)
            if callee.effect and not self.eff:
                raise NeedEffect()
            ctx.binds.append((pat, code, bool(callee.effect)))
            ctx.self_rebound = True
            return val
        if callee.effect:
            return self.bind_eff(ctx, code, ret)
        return E(code, ret)


# ------------------------------------------------------------------------------------------------
# translator: statements
# ------------------------------------------------------------------------------------------------

def terminates(stmts):
    """every path through `stmts` ends in return / raise / continue / break"""
    if not stmts:
        return False
    s = stmts[-1]
    if isinstance(s, (ast.Return, ast.Raise, ast.Continue, ast.Break)):
        return True
    if isinstance(s, ast.If):
        return terminates(s.body) and terminates(s.orelse)
    if isinstance(s, ast.With):
        return terminates(s.body)
    return False


def has_escape(stmts, loop_level=True):
    """a return anywhere inside, or a break / continue belonging to an enclosing loop"""
    for s in stmts:
        if isinstance(s, ast.Return):
            return True
        if isinstance(s, (ast.Break, ast.Continue)) and loop_level:
            return True
        if isinstance(s, ast.If) and (has_escape(s.body, loop_level) or has_escape(s.orelse, loop_level)):
            return True
        if isinstance(s, ast.With) and has_escape(s.body, loop_level):
            return True
        if isinstance(s, (ast.For, ast.While)) and has_escape(s.body, False):
            return True
        if isinstance(s, ast.Try):
            return True
    return False


def assigned_names(stmts):
    """local names (and `self`) assigned in the statements, in order of first assignment"""
    out = []

    def add(n):
        if n not in out:
            out.append(n)

    def target(t):
        if isinstance(t, ast.Name):
            add(t.id)
        elif isinstance(t, (ast.Tuple, ast.List)):
            for x in t.elts:
                target(x)
        elif isinstance(t, ast.Attribute):
            base = t
            while isinstance(base, ast.Attribute):
                base = base.value
            if isinstance(base, ast.Name):
                add(base.id)
        elif isinstance(t, ast.Subscript):
            if isinstance(t.value, ast.Name):
                add(t.value.id)

    class V(ast.NodeVisitor):
        def visit_Assign(self, n):
            self.generic_visit(n)
            for t in n.targets:
                target(t)

        def visit_AugAssign(self, n):
            self.generic_visit(n)
            target(n.target)

        def visit_For(self, n):
            target(n.target)
            self.generic_visit(n)

        def visit_Call(self, n):
            self.generic_visit(n)
            f = n.func
            if isinstance(f, ast.Name) and f.id == "next" and len(n.args) == 1 and isinstance(n.args[0], ast.Name):
                add(n.args[0].id)
            if isinstance(f, ast.Attribute) and isinstance(f.value, ast.Name):
                if f.attr in ("append", "seek"):
                    add(f.value.id)
                elif f.value.id == "self":
                    add("self")     # a method may update self

        def visit_Yield(self, n):
            self.generic_visit(n)
            add("__yield__")

    for s in stmts:
        V().visit(s)
    return out


def names_read(nodes):
    out = set()
    for n in nodes:
        for x in ast.walk(n):
            if isinstance(x, ast.Name):
                out.add(x.id)
            if isinstance(x, ast.Yield):
                out.add("__yield__")
    return out


def _target_names(t):
    if isinstance(t, ast.Name):
        return {t.id}
    if isinstance(t, (ast.Tuple, ast.List)):
        out = set()
        for x in t.elts:
            out |= _target_names(x)
        return out
    return set()


def upward_exposed(stmts, defined=frozenset()):
    """(names that may be read before they are assigned in `stmts`, names definitely assigned afterwards)"""
    exposed = set()
    defined = set(defined)

    def reads(node):
        return names_read([node]) if node is not None else set()

    for s in stmts:
        if isinstance(s, ast.Assign):
            exposed |= reads(s.value) - defined
            for t in s.targets:
                if not isinstance(t, (ast.Name, ast.Tuple, ast.List)):
                    exposed |= reads(t) - defined
            for t in s.targets:
                defined |= _target_names(t)
        elif isinstance(s, ast.AugAssign):
            exposed |= (reads(s.value) | reads(s.target)) - defined
        elif isinstance(s, ast.If):
            exposed |= reads(s.test) - defined
            e1, d1 = upward_exposed(s.body, defined)
            e2, d2 = upward_exposed(s.orelse, defined)
            exposed |= e1 | e2
            if terminates(s.body) and not terminates(s.orelse):
                defined = d2
            elif terminates(s.orelse) and not terminates(s.body):
                defined = d1
            else:
                defined = d1 & d2
        elif isinstance(s, ast.For):
            exposed |= reads(s.iter) - defined
            e, _ = upward_exposed(s.body, defined | _target_names(s.target))
            exposed |= e
        elif isinstance(s, ast.While):
            exposed |= reads(s.test) - defined
            e, _ = upward_exposed(s.body, defined)
            exposed |= e
        elif isinstance(s, ast.Try):
            e, _ = upward_exposed(s.body, defined)
            exposed |= e
            for h in s.handlers:
                e, _ = upward_exposed(h.body, defined)
                exposed |= e
        elif isinstance(s, ast.With):
            for item in s.items:
                exposed |= reads(item.context_expr) - defined
            e, d = upward_exposed(s.body, defined)
            exposed |= e
            defined = d
        else:
            exposed |= reads(s) - defined
    return exposed, defined


YIELD = "__yield__"


def _m(cls):
    """attach the functions below to Translator"""
    def deco(f):
        setattr(cls, f.__name__, f)
        return f
    return deco


@_m(Translator)
def block(self, stmts, env, k, after=()):
    """lines for `stmts` followed by the continuation `k(env)`; `after` = statements that run later
    (for liveness)"""
    if not stmts:
        return k(env)
    s, rest = stmts[0], stmts[1:]
    for pred, repl in self.cur.replace:
        if pred(s):
            new = ast.parse(repl).body
            for n in new:
                for sub in ast.walk(n):
                    ast.copy_location(sub, s)
            return self.block(list(new) + list(rest), env, k, after)
    ds = _desugar_self_container(s)
    if ds is not None:
        return self.block(ds + list(rest), env, k, after)
    m = getattr(self, "st_" + type(s).__name__, None)
    if m is None:
        self.fail("statement `%s` is outside the supported subset" % type(s).__name__, s)
    cont = lambda e: self.block(rest, e, k, after)
    nx = _iterator_next(s, env)
    if nx is not None:
        return self.st_next(s, nx[0], nx[1], env, cont)
    return m(s, env, cont, list(rest) + list(after))


def _desugar_self_container(s):
    """`self.a.append(x)` -> `self.a = self.a + [x]`;  `self.a[i] = v` -> `_a = self.a; _a[i] = v; self.a = _a`"""
    def is_self_attr(n):
        return isinstance(n, ast.Attribute) and isinstance(n.value, ast.Name) and n.value.id == "self"
    new = None
    if isinstance(s, ast.Expr) and isinstance(s.value, ast.Call) and isinstance(s.value.func, ast.Attribute) \
            and s.value.func.attr == "append" and is_self_attr(s.value.func.value) and len(s.value.args) == 1:
        a = ast.unparse(s.value.func.value)
        new = ast.parse("%s = %s + [%s]" % (a, a, ast.unparse(s.value.args[0]))).body
    elif isinstance(s, ast.Assign) and len(s.targets) == 1 and isinstance(s.targets[0], ast.Subscript) \
            and is_self_attr(s.targets[0].value):
        a = ast.unparse(s.targets[0].value)
        tmp = "_" + s.targets[0].value.attr
        new = ast.parse("%s = %s\n%s[%s] = %s\n%s = %s" % (tmp, a, tmp, ast.unparse(s.targets[0].slice),
                                                           ast.unparse(s.value), a, tmp)).body
    if new is not None:
        for n in new:
            for sub in ast.walk(n):
                ast.copy_location(sub, s)
    return new


def _iterator_next(s, env):
    """(iterator variable, target or None) when `s` is `next(it)` or `target = next(it)` for a local list `it`"""
    call, target = None, None
    if isinstance(s, ast.Expr) and isinstance(s.value, ast.Call):
        call = s.value
    elif isinstance(s, ast.Assign) and len(s.targets) == 1 and isinstance(s.value, ast.Call):
        call, target = s.value, s.targets[0]
    if call is not None and isinstance(call.func, ast.Name) and call.func.id == "next" and len(call.args) == 1 \
            and isinstance(call.args[0], ast.Name) and call.args[0].id in env.vars and not call.keywords:
        t = resolve(env.vars[call.args[0].id])
        if isinstance(t, tuple) and t[0] == "list":
            return call.args[0].id, target
    return None


@_m(Translator)
def st_next(self, s, it, target, env, cont):
    """`target = next(it)`: take the head of the remaining elements; an exhausted iterator raises StopIteration,
    which inside `try: … except StopIteration:` runs the handler"""
    ety = resolve(env.vars[it])[1]
    env2 = env.assign(it, env.vars[it])
    if target is None:
        pat = "_"
    else:
        pat, env2 = self.pattern(target, ety, env2, s)
    if self.stop_handlers:
        empty = self.stop_handlers[-1](env)
    else:
        if not self.eff:
            raise NeedEffect()
        empty = L('throw "StopIteration"')
    return L("match %s with" % lname(it)) + L("| [] =>") + ind(empty) + L("| %s :: %s =>" % (pat, lname(it))) + ind(cont(env2))


@_m(Translator)
def st_Try(self, s, env, cont, later):
    if len(s.handlers) != 1 or s.orelse or s.finalbody or not isinstance(s.handlers[0].type, ast.Name) \
            or s.handlers[0].name is not None:
        self.fail("`try` with several handlers, `else`, `finally` or `as`", s)
    h = s.handlers[0]
    if h.type.id != "StopIteration":
        return self.try_catch(s, h, env, cont, later)
    if not terminates(h.body):
        self.fail("the StopIteration handler must end in `return` or `raise`", s)
    for n in ast.walk(ast.Module(body=s.body, type_ignores=[])):
        if isinstance(n, ast.Call) and not (isinstance(n.func, ast.Name) and n.func.id == "next") and \
                isinstance(n.func, ast.Name) and n.func.id in self.targets:
            self.fail("call of a translated function inside `try … except StopIteration`", s)
    self.stop_handlers.append(lambda e: self.block(list(h.body), e, lambda e2: [], ()))
    try:
        return self.block(list(s.body), env, cont, later)
    finally:
        self.stop_handlers.pop()


CATCHABLE = ("KeyError", "IndexError", "ValueError", "AttributeError", "TypeError", "ZeroDivisionError")


@_m(Translator)
def try_catch(self, s, h, env, cont, later):
    """`try: body except E: handler` where neither part returns / breaks: both yield the variables they assign.
    Only the exact class `E` is caught (none of the exceptions raised by the supported operations is a
    subclass of another one in CATCHABLE)."""
    if h.type.id not in CATCHABLE:
        self.fail("`except %s`" % h.type.id, s)
    if has_escape(s.body, True) or has_escape(h.body, True):
        self.fail("`return` / `break` / `continue` inside `try … except %s`" % h.type.id, s)
    if not self.eff:
        raise NeedEffect()
    live = self.live_after(later)
    names = [n for n in assigned_names(s.body + h.body) if n in live or n == "self"]
    if "self" in names and not self._really_mutates(s):
        names.remove("self")
    names = [n for n in names if n in env.vars or (n in assigned_names(s.body) and (n in assigned_names(h.body) or terminates(h.body)))]
    state = {"types": None, "seen": {n: [] for n in names}}

    def join(e):
        for n in names:
            if n not in e.vars:
                self.fail("`%s` may be unbound after the `try`" % n, s)
        if state["types"] is None:
            for n in names:
                state["seen"][n].append(var_type(e, n))
            return L("?")
        codes = [self.lift(lname(_lean_var(n)), var_type(e, n), state["types"][n], s, n) for n in names]
        return L("pure " + atom(self.tuple_code(codes)))

    def attempt():
        return self.block(list(s.body), env, join, ()), self.block(list(h.body), env, join, ())
    c0 = self.counter
    attempt()
    state["types"] = {n: self.join_type(state["seen"][n], s, n) for n in names}
    self.counter = c0
    b_lines, h_lines = attempt()

    def paren_do(lines):
        out = L("(do") + ind(lines)
        i, t = out[-1]
        out[-1] = (i, t + ")")
        return out
    pat = self.state_tuple([_lean_var(n) for n in names]) if names else "_"
    env2 = env
    for n in names:
        env2 = env2.assign(n, state["types"][n])
    return L("let %s ← Py.tryCatch" % pat) + ind(paren_do(b_lines)) + ind(L('"%s"' % h.type.id)) + ind(paren_do(h_lines)) + cont(env2)


def contains_return(stmts):
    return any(isinstance(n, ast.Return) for st in stmts for n in ast.walk(st))


@_m(Translator)
def ret_propagate(self, v):
    """a `return` that happened inside an inner loop, seen from the statement after that loop"""
    if self.loop_depth > 0:
        return "pure (Py.Ctl.ret %s)" % atom(v)
    return "pure %s" % atom(v)


@_m(Translator)
def st_While(self, s, env, cont, later):
    if s.orelse:
        self.fail("`while … else`", s)
    if self.cur.while_fuel is None:
        self.fail("`while` loop in a function without a declared iteration bound", s)
    if not self.eff:
        raise NeedEffect()
    ctx = Ctx()
    fuel = self.ex(ast.parse(self.cur.while_fuel, mode="eval").body, env, ctx)
    if not unify(fuel.ty, INT):
        self.fail("the iteration bound is not an int", s)
    body = list(s.body)
    if not (isinstance(s.test, ast.Constant) and s.test.value is True):
        body = [ast.copy_location(ast.If(test=ast.UnaryOp(op=ast.Not(), operand=s.test), body=[ast.Break()], orelse=[]), s)] + body
        ast.fix_missing_locations(body[0])
    live = self.live_after(later) | upward_exposed(body)[0]
    names = [n for n in assigned_names(body) if n in env.vars and n in live]
    if "self" in names and not self._really_mutates(s):
        names.remove("self")
    st = self.state_tuple([_lean_var(n) for n in names])

    def exit_(kind, e):
        codes = [self.lift(lname(_lean_var(n)), var_type(e, n), var_type(env, n), s, n) for n in names]
        return L("pure (Py.Ctl.%s %s)" % (kind, atom(self.tuple_code(codes))))
    self.loop_exit.append(exit_)
    self.loop_bodies.append(body)
    self.live_stack.append(set(names))
    self.loop_kinds.append("ctl")
    self.loop_depth += 1
    try:
        lines = self.block(body, env, lambda e: exit_("next", e), ())
    finally:
        self.loop_depth -= 1
        self.loop_kinds.pop()
        self.live_stack.pop()
        self.loop_bodies.pop()
        self.loop_exit.pop()
    r = self.fresh()
    env2 = env
    for n in names:
        env2 = env2.assign(n, var_type(env, n))
    head = L("let %s ← Py.whileE (%s).toNat %s fun %s => do" % (r, fuel.code, st, st))
    tail = L("match %s with" % r) + L("| .returned v =>") + ind(L(self.ret_propagate("v"))) + \
        L("| .fell %s =>" % st) + ind(cont(env2))
    return self.emit_binds(ctx) + head + ind(lines, 4) + tail


@_m(Translator)
def pure_wrap(self, code):
    return ("pure " + atom(code)) if self.eff else code


@_m(Translator)
def emit_binds(self, ctx):
    out = []
    for b in ctx.binds:
        out += self.bind_lines(b)
    return out


@_m(Translator)
def let_value(self, pat, e, ctx, annot=None):
    """`let pat := e`, re-using the last hoisted binding when `e` is exactly its temporary"""
    if ctx.binds and isinstance(ctx.binds[-1][0], str) and re.fullmatch(r"t\d+", e.code) \
            and (ctx.binds[-1][0] == e.code or ctx.binds[-1][0].startswith(e.code + " : ")):
        old_pat, code, eff = ctx.binds.pop()
        if re.fullmatch(r"[\w«»']+", pat):
            pat = pat + old_pat[len(e.code):]
        return self.emit_binds(ctx) + self.bind_lines((pat, code, eff))
    if ctx.binds and re.fullmatch(r"t\d+", e.code) and ctx.binds[-1][0] == "(%s, self)" % e.code \
            and re.fullmatch(r"[\w«»']+", pat):
        _, code, eff = ctx.binds.pop()
        return self.emit_binds(ctx) + self.bind_lines(("(%s, self)" % pat, code, eff))
    ann = (" : " + annot) if annot else ""
    if not annot and resolve(e.ty) == INT and re.fullmatch(r"[\w«»']+", pat):
        ann = " : Int"
    return self.emit_binds(ctx) + L("let %s%s := %s" % (pat, ann, e.code))


@_m(Translator)
def after_ctx(self, env, ctx):
    """environment after the hoisted bindings of a statement: a method call that updated `self`
    invalidates what was known about its None-able attributes"""
    if getattr(ctx, "self_rebound", False):
        e = env.copy()
        for k in list(e.narrow):
            if k.startswith("self."):
                del e.narrow[k]
        return e
    return env


@_m(Translator)
def st_Pass(self, s, env, cont, later):
    return cont(env)


@_m(Translator)
def st_Expr(self, s, env, cont, later):
    v = s.value
    if isinstance(v, ast.Constant):
        return cont(env)      # docstring
    if isinstance(v, ast.Yield):
        if YIELD not in env.vars:
            self.fail("`yield` in a function that is not declared as a generator", s)
        ctx = Ctx()
        e = self.ex(v.value, env, ctx)
        if not unify(env.vars[YIELD], Lst(e.ty)):
            self.fail("yielded values of different types", s)
        return self.emit_binds(ctx) + L("let out := out ++ [%s]" % typed(e)) + cont(env)
    if isinstance(v, ast.Call):
        name = ast.unparse(v.func)
        if name.startswith(IGNORED_CALL_PREFIXES):
            return cont(env)
        if isinstance(v.func, ast.Attribute) and v.func.attr == "seek" and isinstance(v.func.value, ast.Name) \
                and v.func.value.id in env.vars and resolve(env.vars[v.func.value.id]) == FILEPOS:
            fvar = v.func.value.id
            ctx = Ctx()
            if len(v.args) == 1 and not v.keywords:
                pos = self.ex(v.args[0], env, ctx)
                code = pos.code
            elif len(v.args) == 2 and not v.keywords and ast.unparse(v.args[1]) == "os.SEEK_CUR":
                pos = self.ex(v.args[0], env, ctx)
                code = "%s + %s" % (lname(fvar), atom(pos.code))
            else:
                self.fail("`seek` with this whence", s)
            if not unify(pos.ty, INT):
                self.fail("`seek` to a non-int position", s)
            return self.emit_binds(ctx) + L("let %s : Int := %s" % (lname(fvar), code)) + cont(self.after_ctx(env, ctx).assign(fvar, FILEPOS))
        if isinstance(v.func, ast.Attribute) and v.func.attr == "append" and isinstance(v.func.value, ast.Name) \
                and len(v.args) == 1:
            xs = v.func.value.id
            if xs not in env.vars:
                self.fail("append to unknown list `%s`" % xs, s)
            ctx = Ctx()
            e = self.ex(v.args[0], env, ctx)
            if not unify(env.vars[xs], Lst(e.ty)):
                self.fail("append of a value of the wrong type", s)
            return self.emit_binds(ctx) + L("let %s := %s ++ [%s]" % (lname(xs), lname(xs), e.code)) + cont(env.assign(xs, env.vars[xs]))
        if isinstance(v.func, ast.Attribute) and isinstance(v.func.value, ast.Name) and v.func.value.id in env.vars \
                and v.func.value.id != "self":
            rt = resolve(env.vars[v.func.value.id])
            key = (rt[1], v.func.attr) if isinstance(rt, tuple) and rt[0] == "struct" else None
            ab = self.cur.abstract.get(key)
            if ab is not None and len(ab) > 3 and "updates_receiver" in ab[3]:
                # an untranslated method that updates its receiver: the parameter returns the updated object
                obj = v.func.value.id
                if obj not in env.fresh:
                    self.fail("`%s` updates `%s`, which may be shared with other references" % (ast.unparse(v), obj), s)
                ctx = Ctx()
                r = self.ex(v, env, ctx)
                env2 = self.after_ctx(env, ctx).assign(obj, env.vars[obj])
                env2.fresh.add(obj)
                return self.let_value(lname(obj), r, ctx) + cont(env2)
        ctx = Ctx()
        self.ex(v, env, ctx)
        # the value is dropped; bindings (effects, self updates) stay
        binds = []
        for (pat, code, eff) in ctx.binds:
            binds.append((pat, code, eff))
        if binds and re.fullmatch(r"t\d+", binds[-1][0]):
            binds[-1] = ("_", binds[-1][1], binds[-1][2])
        elif binds and re.fullmatch(r"\(t\d+, self\)", binds[-1][0]):
            binds[-1] = ("(_, self)", binds[-1][1], binds[-1][2])
        out = []
        for b in binds:
            out += self.bind_lines(b)
        return out + cont(self.after_ctx(env, ctx))
    self.fail("expression statement `%s`" % ast.unparse(s), s)


@_m(Translator)
def st_Assign(self, s, env, cont, later):
    if len(s.targets) != 1:
        self.fail("chained assignment", s)
    return self.assign_to(s.targets[0], s.value, env, cont, s)


@_m(Translator)
def st_AugAssign(self, s, env, cont, later):
    load = ast.fix_missing_locations(ast.copy_location(_as_load(s.target), s))
    value = ast.copy_location(ast.BinOp(left=load, op=s.op, right=s.value), s)
    return self.assign_to(s.target, value, env, cont, s)


def _as_load(t):
    t2 = ast.parse(ast.unparse(t), mode="eval").body
    return t2


@_m(Translator)
def assign_to(self, target, value, env, cont, s):
    ctx = Ctx()
    if isinstance(target, ast.Name):
        e = self.ex(value, env, ctx)
        n = target.id
        ty = e.ty
        annot = None
        if isinstance(resolve(ty), TVar) or _has_tvar(resolve(ty)):
            hint = self.hints.get((s.lineno, s.col_offset))
            if hint is not None:
                unify(ty, hint)
            self.pending_hints.append(((s.lineno, s.col_offset), ty))
            annot = LazyType(ty)
        lines = self.let_value(lname(n), e, ctx, annot)
        env2 = self.after_ctx(env, ctx).assign(n, ty)
        if getattr(e, "fresh", False):
            env2.fresh.add(n)
        return lines + cont(env2)
    if isinstance(target, ast.Tuple):
        e = self.ex(value, env, ctx)
        pat, env2 = self.pattern(target, e.ty, self.after_ctx(env, ctx), s)
        return self.let_value(pat, e, ctx) + cont(env2)
    if isinstance(target, ast.Attribute) and isinstance(target.value, ast.Name) and target.value.id == "self":
        e = self.ex(value, env, ctx)
        sty = resolve(env.vars["self"])
        fty = self.field_type(sty[1], target.attr, s)
        self.mutates = True
        env2 = self.after_ctx(env, ctx)
        for k in list(env2.narrow):
            if k == "self." + target.attr or k.startswith("self." + target.attr + "."):
                del env2.narrow[k]
        fr, et = resolve(fty), resolve(e.ty)
        if isinstance(fr, tuple) and fr[0] == "opt" and not (isinstance(et, tuple) and et[0] == "opt") and not isinstance(et, TVar):
            # a non-None value stored in a None-able attribute: later reads of the attribute see that value
            if not unify(fr[1], et):
                self.fail("type mismatch in `%s`" % ast.unparse(s), s)
            key = "self." + target.attr
            v = self.narrow_name(key, env, s)
            lines = self.let_value(v, e, ctx) + L("let self := { self with %s := some %s }" % (lname(target.attr), v))
            env2.narrow[key] = (v, et)
            return lines + cont(env2)
        code = self.coerce(e, fty, s)
        lines = self.emit_binds(ctx) + L("let self := { self with %s := %s }" % (lname(target.attr), code))
        return lines + cont(env2)
    if isinstance(target, ast.Attribute) and isinstance(target.value, ast.Name) and target.value.id in env.vars:
        v = target.value.id
        vt = resolve(env.vars[v])
        if not (isinstance(vt, tuple) and vt[0] == "struct"):
            self.fail("attribute assignment on a %s" % lean_type(vt), s)
        if v not in env.fresh:
            self.fail("attribute assignment on `%s`, which may be shared with other references (only objects made by "
                      "copy() / a constructor in this function may be updated)" % v, s)
        e = self.ex(value, env, ctx)
        code = self.coerce(e, self.field_type(vt[1], target.attr, s), s)
        env2 = self.after_ctx(env, ctx).assign(v, env.vars[v])
        env2.fresh.add(v)
        return self.emit_binds(ctx) + L("let %s := { %s with %s := %s }" % (lname(v), lname(v), lname(target.attr), code)) + cont(env2)
    if isinstance(target, ast.Subscript) and isinstance(target.value, ast.Name) and target.value.id in env.vars:
        d = target.value.id
        t = resolve(env.vars[d])
        kx = self.ex(target.slice, env, ctx)
        e = self.ex(value, env, ctx)
        if isinstance(t, tuple) and t[0] == "dict":
            if not (unify(t[1], kx.ty) and unify(t[2], e.ty)):
                self.fail("dict store of the wrong type", s)
            lines = self.emit_binds(ctx) + L("let %s := Py.Dict.set %s %s %s" % (lname(d), lname(d), atom(kx.code), atom(typed(e))))
            return lines + cont(env.assign(d, env.vars[d]))
        if isinstance(t, tuple) and t[0] == "list":
            if not (unify(INT, kx.ty) and unify(t[1], e.ty)):
                self.fail("list store of the wrong type", s)
            if not self.eff:
                raise NeedEffect()
            lines = self.emit_binds(ctx) + L("let %s ← Py.setItem %s %s %s" % (lname(d), lname(d), atom(kx.code), atom(typed(e))))
            return lines + cont(env.assign(d, env.vars[d]))
    self.fail("assignment target `%s`" % ast.unparse(target), s)


def _has_tvar(t):
    if isinstance(t, TVar):
        return True
    if isinstance(t, tuple):
        return any(_has_tvar(resolve(x)) for x in t[1:] if isinstance(x, (tuple, TVar))) or \
            (t[0] == "tuple" and any(_has_tvar(resolve(x)) for x in t[1]))
    return False


class LazyType:
    def __init__(self, ty):
        self.ty = ty

    def __str__(self):
        return lean_type(self.ty)

    def __radd__(self, other):
        return LazyStr([other, self])


class LazyStr:
    def __init__(self, parts):
        self.parts = parts

    def __add__(self, other):
        return LazyStr(self.parts + [other])

    def __radd__(self, other):
        return LazyStr([other] + self.parts)

    def __str__(self):
        return "".join(str(p) for p in self.parts)


@_m(Translator)
def ret_value(self, e, s):
    """code of the function result for `return e` (e = None for a bare return / falling off the end)"""
    t = self.cur
    if e is None:
        if t.ret is None:
            val = None
        elif isinstance(resolve(t.ret), tuple) and resolve(t.ret)[0] == "opt":
            val = "none"
        else:
            self.fail("the function may return None but its declared result is %s" % lean_type(t.ret), s)
    else:
        if t.ret is None:
            self.fail("`return <value>` in a function declared to return None", s)
        val = self.coerce(e, t.ret, s)
    if YIELD in self.fn_env_vars:
        if val is not None:
            self.fail("`return <value>` in a generator", s)
        val = "out"
    if self.mutates_flag:
        return "self" if val is None else "(%s, self)" % val
    return "()" if val is None else val


@_m(Translator)
def st_Return(self, s, env, cont, later):
    ctx = Ctx()
    e = self.ex(s.value, env, ctx) if s.value is not None else None
    if self.loop_depth > 0:
        if self.loop_kinds[-1] != "ctl":
            self.fail("internal: `return` inside a loop that was not translated with Py.Ctl", s)
        if not self.eff:
            raise NeedEffect()
        return self.emit_binds(ctx) + L("pure (Py.Ctl.ret %s)" % atom(self.ret_value(e, s)))
    return self.emit_binds(ctx) + L(self.pure_wrap(self.ret_value(e, s)))


@_m(Translator)
def st_Raise(self, s, env, cont, later):
    if s.exc is None:
        self.fail("bare `raise`", s)
    x = s.exc.func if isinstance(s.exc, ast.Call) else s.exc
    if not isinstance(x, ast.Name):
        self.fail("raise of `%s`" % ast.unparse(s.exc), s)
    if not self.eff:
        raise NeedEffect()
    return L('throw "%s"' % x.id)


@_m(Translator)
def st_Continue(self, s, env, cont, later):
    return self.loop_exit[-1]("next", env)


@_m(Translator)
def st_Break(self, s, env, cont, later):
    return self.loop_exit[-1]("brk", env)


@_m(Translator)
def st_With(self, s, env, cont, later):
    for item in s.items:
        c = item.context_expr
        if not (isinstance(c, ast.Call) and ast.unparse(c.func) in TRANSPARENT_WITH and item.optional_vars is None):
            self.fail("`with %s`" % ast.unparse(c), s)
    return self.block(list(s.body), env, cont, later)


@_m(Translator)
def live_after(self, later):
    """names that may be read after the current statement"""
    live = names_read(later)
    for names in self.live_stack:
        live |= names          # the running variables of the enclosing loops
    live |= set(self.always_live)
    return live


@_m(Translator)
def state_tuple(self, names):
    if not names:
        return "()"
    if len(names) == 1:
        return lname(names[0])
    return "(" + ", ".join(lname(n) for n in names) + ")"


def _lean_var(n):
    return "out" if n == YIELD else n


def var_type(e, n):
    return e.narrow[n][1] if n in e.narrow else e.vars[n]


@_m(Translator)
def join_type(self, ts, node, name):
    """the common type of a variable on several paths; `T` and `Option T` join to `Option T`"""
    ts = [resolve(t) for t in ts]
    opts = [t for t in ts if isinstance(t, tuple) and t[0] == "opt"]
    if opts:
        x = opts[0][1]
        for t in ts:
            inner = t[1] if (isinstance(t, tuple) and t[0] == "opt") else t
            if not unify(x, inner):
                self.fail("`%s` has incompatible types on different paths" % name, node)
        return Opt(x)
    for t in ts[1:]:
        if not unify(ts[0], t):
            self.fail("`%s` has incompatible types on different paths" % name, node)
    return ts[0]


@_m(Translator)
def lift(self, code, have, want, node, name):
    have, want = resolve(have), resolve(want)
    if isinstance(want, tuple) and want[0] == "opt" and not (isinstance(have, tuple) and have[0] == "opt") \
            and not isinstance(have, TVar):
        if not unify(want[1], have):
            self.fail("`%s` has incompatible types on different paths" % name, node)
        return "some " + atom(code)
    if not unify(want, have):
        self.fail("`%s` has incompatible types on different paths" % name, node)
    return code


@_m(Translator)
def tuple_code(self, codes):
    if not codes:
        return "()"
    if len(codes) == 1:
        return codes[0]
    return "(" + ", ".join(codes) + ")"


@_m(Translator)
def st_If(self, s, env, cont, later):
    ctx = Ctx()
    body_t, else_t = terminates(s.body), terminates(s.orelse)
    in_loop = self.loop_depth > 0
    simple = (not later) or body_t or else_t or has_escape(s.body, in_loop) or has_escape(s.orelse, in_loop)
    if simple:
        tree = self.cond_tree(s.test, env, ctx,
                              lambda e: self.block(list(s.body), e, cont, later),
                              lambda e: self.block(list(s.orelse), e, cont, later))
        return self.emit_binds(ctx) + self.render_tree(tree, lambda x: x, self.eff)
    # both branches fall through and something follows: the `if` yields the variables it assigns
    live = self.live_after(later)
    cand = [n for n in assigned_names(s.body + s.orelse) if n in live or n == "self"]
    both = set(assigned_names(s.body)) & set(assigned_names(s.orelse)) if s.orelse else set()
    names = [n for n in cand if n in env.vars or n in both]
    if "self" in names and not self._really_mutates(s):
        names = [n for n in names if n != "self"]
    state = {"types": None, "seen": {n: [] for n in names}}

    def join(e):
        for n in names:
            if n not in e.vars:
                self.fail("`%s` may be unbound after the `if`" % n, s)
        if state["types"] is None:
            for n in names:
                state["seen"][n].append(var_type(e, n))
            return L("?")
        codes = [self.lift(lname(_lean_var(n)), var_type(e, n), state["types"][n], s, n) for n in names]
        return L(self.pure_wrap(self.tuple_code(codes)))

    def attempt():
        c = Ctx()
        tree = self.cond_tree(s.test, env, c, lambda e: self.block(list(s.body), e, join, ()),
                              lambda e: self.block(list(s.orelse), e, join, ()))
        return c, self.render_tree(tree, lambda x: x, self.eff)

    def run():
        c0 = self.counter
        state["types"] = None
        state["seen"] = {n: [] for n in names}
        attempt()
        state["types"] = {n: self.join_type(state["seen"][n], s, n) for n in names}
        self.counter = c0
        return attempt()

    saved = (self.eff, self.counter, self.mutates)
    eff_used = False
    try:
        self.eff = False
        ctx, lines = run()
    except NeedEffect:
        self.eff = saved[0]
        self.counter = saved[1]
        if not self.eff:
            raise
        eff_used = True
        ctx, lines = run()
    finally:
        self.eff = saved[0]
    env2 = env
    for n in names:
        env2 = env2.assign(n, state["types"][n])
    if not names:
        if eff_used:
            head = L("let _ ←") + ind(lines)
        else:
            head = []    # nothing observable happens in the `if`
        return self.emit_binds(ctx) + head + cont(env2)
    pat = self.state_tuple([_lean_var(n) for n in names])
    if len(names) == 1 and not _has_tvar(resolve(state["types"][names[0]])):
        pat += " : " + lean_type(state["types"][names[0]])
    if len(lines) == 1:
        head = L("let %s %s %s" % (pat, "←" if eff_used else ":=", lines[0][1]))
    else:
        head = L("let %s %s" % (pat, "←" if eff_used else ":=")) + ind(lines)
    return self.emit_binds(ctx) + head + cont(env2)


@_m(Translator)
def _really_mutates(self, s):
    for n in ast.walk(s):
        if isinstance(n, (ast.Assign, ast.AugAssign)):
            ts = n.targets if isinstance(n, ast.Assign) else [n.target]
            for t in ts:
                if isinstance(t, ast.Attribute) and isinstance(t.value, ast.Name) and t.value.id == "self":
                    return True
        if isinstance(n, ast.Call) and isinstance(n.func, ast.Attribute) and isinstance(n.func.value, ast.Name) \
                and n.func.value.id == "self":
            sty = self.fn_self_struct
            callee = self.targets.get("%s.%s" % (sty, n.func.attr)) if sty else None
            if callee is not None and callee.mutates:
                return True
    return False


@_m(Translator)
def st_For(self, s, env, cont, later):
    if s.orelse:
        self.fail("`for … else`", s)
    ctx = Ctx()
    it_code, elt_ty = self.iterable(s.iter, env, ctx)
    pat, env_body0 = self.pattern(s.target, elt_ty, env, s)
    live = self.live_after(later) | upward_exposed(s.body, _target_names(s.target))[0]
    names = [n for n in assigned_names(s.body) if n in env.vars and (n in live)]
    if "self" in names and not self._really_mutates(s):
        names.remove("self")
    loop_targets = set(assigned_names([ast.Assign(targets=[s.target], value=ast.Constant(value=0))]))
    names = [n for n in names if n not in loop_targets]
    st = self.state_tuple([_lean_var(n) for n in names])
    ctl = contains_return(s.body)
    if ctl and not self.eff:
        raise NeedEffect()

    def body_lines():
        def exit_(kind, e):
            codes = [self.lift(lname(_lean_var(n)), var_type(e, n), var_type(env, n), s, n) for n in names]
            return L(self.pure_wrap("Py.%s.%s %s" % ("Ctl" if ctl else "Step", kind, atom(self.tuple_code(codes)))))
        self.loop_exit.append(exit_)
        self.loop_bodies.append(s.body)
        self.live_stack.append(set(names))
        self.loop_kinds.append("ctl" if ctl else "step")
        self.loop_depth += 1
        try:
            return self.block(list(s.body), env_body0, lambda e: exit_("next", e), ())
        finally:
            self.loop_depth -= 1
            self.loop_kinds.pop()
            self.live_stack.pop()
            self.loop_bodies.pop()
            self.loop_exit.pop()

    if ctl:
        lines = body_lines()
        r = self.fresh()
        env2 = env
        for n in names:
            env2 = env2.assign(n, var_type(env, n))
        head = L("let %s ← Py.forC %s %s fun %s %s => do" % (r, atom(it_code), st, pat, st))
        tail = L("match %s with" % r) + L("| .returned v =>") + ind(L(self.ret_propagate("v"))) + \
            L("| .fell %s =>" % st) + ind(cont(env2))
        return self.emit_binds(ctx) + head + ind(lines, 4) + tail

    saved = (self.eff, self.counter)
    eff_used = False
    try:
        self.eff = False
        lines = body_lines()
    except NeedEffect:
        self.eff = saved[0]
        self.counter = saved[1]
        if not self.eff:
            raise
        eff_used = True
        lines = body_lines()
    finally:
        self.eff = saved[0]
    if eff_used:
        head = L("let %s ← Py.forE %s %s fun %s %s => do" % (st, atom(it_code), st, pat, st))
    else:
        head = L("let %s := Py.forP %s %s fun %s %s =>" % (st, atom(it_code), st, pat, st))
    env2 = env
    for n in names:
        env2 = env2.assign(n, var_type(env, n))
    return self.emit_binds(ctx) + head + ind(lines, 4) + cont(env2)


# ------------------------------------------------------------------------------------------------
# functions and the file
# ------------------------------------------------------------------------------------------------

@_m(Translator)
def translate_function(self, target):
    import copy as _copy
    fn = _copy.deepcopy(self.src.find_function(target.file, target.qualname))
    if target.rewrite is not None:
        fn = ast.fix_missing_locations(target.rewrite().visit(fn))
    if target.region is not None:
        first_pred, last_pred, inputs, outputs = target.region
        idx = [i for i, st in enumerate(fn.body) if first_pred(st)]
        if len(idx) != 1:
            raise Untranslatable("start of the translated region not found (or ambiguous)", target.qualname, fn)
        jdx = [j for j, st in enumerate(fn.body) if j >= idx[0] and last_pred(st)]
        if not jdx:
            raise Untranslatable("end of the translated region not found", target.qualname, fn)
        region = fn.body[idx[0]:jdx[0] + 1]
        ret = ast.Return(value=ast.Tuple(elts=[ast.Name(id=n, ctx=ast.Load()) for n, _ in outputs], ctx=ast.Load())
                         if len(outputs) != 1 else ast.Name(id=outputs[0][0], ctx=ast.Load()))
        ast.copy_location(ret, region[-1])
        ast.fix_missing_locations(ret)
        fn.body = region + [ret]
        fn.args.args = [ast.arg(arg=n) for n, _ in inputs]
        target.params = [t for _, t in inputs]
        target.ret = Tup(*[t for _, t in outputs]) if len(outputs) != 1 else outputs[0][1]
        target.cls_saved, target.cls = target.cls, ""
    a = fn.args
    if a.vararg or a.kwarg or a.kwonlyargs or a.posonlyargs:
        raise Untranslatable("*args / **kwargs / keyword-only parameters", target.qualname, fn)
    pnames = [x.arg for x in a.args]
    is_method = bool(target.cls) and pnames and pnames[0] == "self"
    if is_method:
        pnames = pnames[1:]
    if len(pnames) != len(target.params):
        raise Untranslatable("the function has %d parameters, the signature table %d" % (len(pnames), len(target.params)),
                             target.qualname, fn)
    target.param_names = pnames
    is_gen = any(isinstance(n, (ast.Yield, ast.YieldFrom)) for n in ast.walk(fn))
    if is_gen and not getattr(target, "generator", False):
        raise Untranslatable("the function is a generator but is not declared as one", target.qualname, fn)
    self.cur = target
    self.fn_self_struct = target.cls if is_method else None
    eff, mut, hints = False, False, {}
    for attempt in range(6):
        self.eff, self.mutates_flag, self.mutates, self.hints = eff, mut, False, hints
        self.counter = 0
        self.used_abstract = set()
        self.pending_hints = []
        self.loop_exit, self.loop_bodies, self.loop_depth = [], [], 0
        self.loop_kinds, self.stop_handlers, self.live_stack = [], [], []
        self.always_live = set()
        env = Env()
        if is_method:
            env.vars["self"] = Struct(target.cls)
        for n, ty in zip(pnames, target.params):
            env.vars[n] = ty
        if is_gen:
            env.vars[YIELD] = Lst(target.ret_yield)
            self.always_live.add(YIELD)
        self.fn_env_vars = dict(env.vars)
        try:
            body = self.block(list(fn.body), env, lambda e: L(self.pure_wrap(self.ret_value(None, fn))), ())
        except NeedEffect:
            if eff:
                raise Untranslatable("internal: effect mode did not settle", target.qualname, fn)
            eff = True
            continue
        new_hints = {pos: resolve(ty) for pos, ty in self.pending_hints}
        if self.mutates and not mut:
            mut = True
            continue
        if new_hints != hints and attempt < 4:
            hints = new_hints
            continue
        break
    target.effect, target.mutates = eff, mut
    base = target.ret if target.ret is not None else UNIT
    if is_gen:
        base = Lst(target.ret_yield)
    if mut:
        rt = Struct(target.cls) if (target.ret is None and not is_gen) else Tup(base, Struct(target.cls))
    else:
        rt = base
    rts = lean_type(rt)
    if eff:
        rts = "Except Py.Exc " + lean_type(rt, False)
    params = []
    if target.type_params:
        params.append("{%s : Type}" % " ".join(target.type_params))
    seen_abs = []
    for key, (lean, ty, sel) in ((k, v[:3]) for k, v in target.abstract.items()):
        if lean not in seen_abs and lean in self.used_abstract:
            seen_abs.append(lean)
            params.append("(%s : %s)" % (lean, lean_type(ty)))
    if is_method:
        params.append("(self : %s)" % lean_type(Struct(target.cls)))
    for n, ty in zip(pnames, target.params):
        params.append("(%s : %s)" % (lname(n), lean_type(ty)))
    head = "def %s %s : %s :=%s" % (target.lean_name, " ".join(params), rts, " do" if eff else "")
    if is_gen:
        body = L("let out : %s := []" % lean_type(base)) + body
    text = ["/-- `%s` (%s) -/" % (target.qualname, target.file), head]
    for (i, t) in ind(body):
        text.append(" " * i + str(t))
    self.done[target.qualname] = "\n".join(text)
    return self.done[target.qualname]


def generate(repo_root=None, overrides=None, targets=None, strict=False):
    """the full text of lean/Tdms/Generated/Code.lean for the source tree at `repo_root`
    (`overrides`: {relative path: source text}, used by the self test)"""
    src = Source(repo_root or REPO_DEFAULT, overrides)
    import copy as _copy
    tgts = [_copy.copy(t) for t in (targets or TARGETS)]
    tr = Translator(src, tgts)
    defs = []
    for t in tgts:
        try:
            defs.append(tr.translate_function(t))
        except Untranslatable as ex:
            if strict:
                raise
            # The definition is left out: the `*_tied` theorem of this function then fails to build (unknown identifier), which
            # breaks the obligations of the properties that depend on this function and of no other property.
            name = getattr(t, "lean_name", None) or getattr(t, "name", None) or str(t)
            defs.append("/- UNTRANSLATABLE %s (line %s): %s -/" % (name, ex.lineno, str(ex.reason).replace("-/", "- /")))
    out = ["import Tdms.Generated.CodePrelude", "",
           "/-! GENERATED by harness/pyast2lean.py from the Python source of npTDMS — do not edit.",
           "Each definition is the translation of one Python function (shallow embedding, see the module",
           "docstring of the translator for the subset and `CodePrelude.lean` for the `Py.*` operations). -/",
           "",
           "set_option linter.unusedVariables false", "",
           "namespace Tdms.Generated.Code", "", "open Tdms.Generated", ""]
    used = _used_structs(tr)
    for name in STRUCT_ORDER:
        if name not in used:
            continue
        sp = STRUCT_PARAMS.get(name)
        out.append("structure %s%s where" % (name, (" (%s : Type)" % " ".join(sp)) if sp else ""))
        for f, ty in STRUCTS[name]:
            out.append("  %s : %s" % (lname(f), lean_type(ty)))
        out.append("")
    if tr.const_defs:
        out.append("/-! module level constants, from their defining expressions -/")
        for lean, (code, ty, origin) in tr.const_defs.items():
            out.append("/-- %s -/" % origin)
            out.append("def %s : %s := %s" % (lname(lean), lean_type(ty), code))
        out.append("")
    for d in defs:
        out.append(d)
        out.append("")
    out.append("end Tdms.Generated.Code")
    return "\n".join(out) + "\n"


def _used_structs(tr):
    used = set()

    def visit(t):
        t = resolve(t)
        if isinstance(t, tuple):
            if t[0] == "struct":
                if t[1] not in used:
                    used.add(t[1])
                    for _, ft in STRUCTS[t[1]]:
                        visit(ft)
            elif t[0] in ("opt", "list"):
                visit(t[1])
            elif t[0] == "tuple":
                for x in t[1]:
                    visit(x)
            elif t[0] == "dict":
                visit(t[1])
                visit(t[2])
            elif t[0] == "fn":
                for x in t[1]:
                    visit(x)
                visit(t[2])
    for t in tr.order:
        if t.cls:
            visit(Struct(t.cls)) if t.cls in STRUCTS else None
        for p in t.params:
            visit(p)
        if t.ret is not None:
            visit(t.ret)
        for _, v in t.abstract.items():
            visit(v[1])
    return used


if __name__ == "__main__":
    import sys
    try:
        sys.stdout.write(generate(sys.argv[1] if len(sys.argv) > 1 else None))
    except Untranslatable as ex:
        sys.stderr.write("Untranslatable: %s\n" % ex)
        sys.exit(2)
