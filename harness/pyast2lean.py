#!/venv/bin/python
"""pyast2lean: translate selected Python functions of npTDMS (their `ast`) into Lean 4 definitions.

Shallow embedding: every selected Python function becomes one Lean `def` in namespace
`Tdms.Generated.Code` (file `lean/Tdms/Generated/Code.lean`, regenerated on every run from the CURRENT
source).  The theorems `…_tied` in `lean/TdmsProofs/Properties/C*Tied.lean` state that each generated
definition equals the hand-written model function; a semantic change of the source regenerates a
different definition and the theorem stops compiling.

SUPPORTED PYTHON SUBSET  (anything else raises `Untranslatable(reason)` naming function and line; the
framework reports that as a broken tie, never as a silent skip)

  values      int -> Int; bool -> Bool; None-able -> Option; list / tuple-as-sequence / numpy index array -> List;
              fixed tuples -> products; str -> List Char; dict -> Py.Dict (insertion ordered association list
              without repeated keys); objects -> structures of the STRUCTS table; one element of a numpy uint64
              array -> UInt64 (wrapping); an open file -> its position (Int); opaque Python values -> type
              parameters of the generated definition
  expressions int / bool / None / str literals, names, `+ - *`, `//` and `%` (floor semantics: `Py.floordiv`,
              `Py.mod` raise ZeroDivisionError; `Int.fdiv` / `Int.fmod` when the divisor is a non-zero constant
              expression), `**` with constant exponent, `<< >>` with constant count, `&`, unary minus, comparisons
              (chained too; `x == v` with x None-able), `is None` / `is not None` (a tested name or attribute is
              bound to its non-None value in the branch: `match … with | none => … | some x => …`),
              `x in (c1, c2)`, `and / or / not` (short circuit kept when an operand can raise), conditional
              expressions, `len min max int sum abs any all enumerate zip range set list copy isinstance next`,
              list comprehensions / generator expressions (one `for`, optional `if`s) as arguments of those,
              dict comprehensions that keep the keys of `d.items()`, tuples, `t[0]` on tuples, `xs[i]` (IndexError,
              negative indices wrap), `xs[a:b]`, `d[k]` (KeyError), `d.get(k, dflt)`, attribute reads (structure
              fields; on a None-able object AttributeError; `None` used as a number TypeError), constructors of
              the CONSTRUCTORS table, calls of other translated functions / methods, `np.searchsorted(a, v,
              side=…)` (-> `Py.searchsortedRight/Left`, TRUSTED to be numpy's on sorted input), `np.uint64`,
              `np.minimum`, `sep.join`, `s.replace(<one character>, t)`, `zip_longest(xs, xs[1:])`, module level
              constants and constant dicts (translated from their defining expression in the source, also through
              `from nptdms.x import name`)
  statements  local assignment, tuple unpacking, augmented assignment, `self.attr = e` (the method then returns the
              updated `self`: result `Self`, or `(value × Self)`), `self.xs.append(v)`, `self.xs[i] = v`,
              `obj.attr = e` on an object made by copy() / a constructor in the same function, `xs[i] = v`,
              `d[k] = v`, `xs.append(v)`, `if / elif / else`, `return` (also inside loops), `raise` (->
              `Except.error "<ClassName>"`), `for pattern in iterable:` with `continue` / `break` and running local
              state (-> `Py.forP` / `Py.forE` over `Py.Step`, `Py.forC` over `Py.Ctl` when the body returns),
              `while` with a declared iteration bound (-> `Py.whileE`; exceeding the bound is the pseudo exception
              "NonTermination", which the tied theorems exclude), `pass`, `with Timer(...)` (transparent),
              `yield e` in generator functions (the definition returns the list of yielded values),
              `x = next(it)` / `next(it)` on a local iterator (-> `match it with | [] => StopIteration | x :: it`),
              `try: … except StopIteration: return`, `try: … except <Class>: …` (-> `Py.tryCatch`, exact class
              only), `f.seek(p)`, `f.seek(p, os.SEEK_CUR)`
  ignored     docstrings, comments, `log.<level>(...)` calls, `warnings.warn(...)`, exception messages

A function is emitted as a pure `def … : T` when nothing in it can raise, else as `def … : Except Py.Exc T` in
`do` notation where every operation that can raise is sequenced with `←` in Python's evaluation order.
Local names are kept; re-assignment is a shadowing `let`; a variable assigned in the branches of an `if` that
falls through is the (tuple) value of the `if`; the running variables of a loop are exactly the variables assigned
in the body that are read before being written in the next iteration or after the loop.

TRUSTED (the translation is as good as these):
  * `STRUCTS`, `ABSENT_ATTR`, `ISINSTANCE`, `CONSTRUCTORS`: which attributes of the Python objects exist, their
    types, which isinstance tests are which Bool fields;
  * `TARGETS`: parameter types; `abstract` = calls that are NOT translated but become (function) parameters of the
    definition (I/O, numpy data, other classes); `replace` / `rewrite` = source rewritings applied before translation
    (index cache lookup -> parameter `channel_index`; numpy timedelta64[us] arithmetic -> integer microseconds;
    `self['second_fractions']` -> a uint64 parameter); `region` = only a slice of a function is translated;
    `while_fuel`;
  * `lean/Tdms/Generated/CodePrelude.lean`: the semantics of the Python operations (`Py.*`);
  * value semantics: objects are immutable values in Lean; the translator refuses attribute assignment on objects
    that may be aliased, but a method of `self` that updates `self` must be called as a statement or as the whole
    right-hand side (checked) and mutable objects shared between two variables are not tracked beyond that.
"""
import ast
import os
import re
import threading

REPO_DEFAULT = os.environ.get("NPTDMS_REPO", "/repo")


class Untranslatable(Exception):
    def __init__(self, reason, func=None, node=None):
        self.reason = reason
        self.func = func
        self.lineno = getattr(node, "lineno", None)
        super().__init__(reason)

    def __str__(self):
        return "%s (function %s, line %s)" % (self.reason, self.func, self.lineno)


class NeedEffect(Exception):
    """internal: a construct that can raise was met while emitting a pure term"""


# ------------------------------------------------------------------------------------------------
# types
# ------------------------------------------------------------------------------------------------

INT = ("int",)
BOOL = ("bool",)
PATH = ("path",)
CHAR = ("char",)
UNIT = ("unit",)
U64 = ("u64",)      # one element of a numpy uint64 array: arithmetic wraps modulo 2**64
FILEPOS = ("filepos",)   # an open file, identified with its current position (`seek` assigns it, `tell` reads it)


def Opt(t):
    return ("opt", t)


def Lst(t):
    return ("list", t)


def Tup(*ts):
    return ("tuple", tuple(ts))


def Dct(k, v):
    return ("dict", k, v)


def Struct(n):
    return ("struct", n)


def Fn(args, ret, eff=False):
    return ("fn", tuple(args), ret, eff)


def Abstract(n):
    """an opaque Lean type parameter of the generated definition"""
    return ("abstract", n)


class TVar:
    """type of an empty literal (`[]`, `{}`, `None`) until its first use fixes it"""

    def __init__(self):
        self.ref = None

    def __repr__(self):
        return "TVar(%r)" % (self.ref,)


def resolve(t):
    while isinstance(t, TVar) and t.ref is not None:
        t = t.ref
    if isinstance(t, tuple):
        if t[0] in ("opt", "list"):
            return (t[0], resolve(t[1]))
        if t[0] == "tuple":
            return ("tuple", tuple(resolve(x) for x in t[1]))
        if t[0] == "dict":
            return ("dict", resolve(t[1]), resolve(t[2]))
    return t


def unify(a, b):
    """make `a` and `b` equal by assigning type variables; False when impossible"""
    a, b = resolve(a), resolve(b)
    if {a, b} == {FILEPOS, INT} if (isinstance(a, tuple) and isinstance(b, tuple)) else False:
        return True       # a file passed on is passed as its position
    if isinstance(a, TVar):
        if a is not b:
            a.ref = b
        return True
    if isinstance(b, TVar):
        b.ref = a
        return True
    if a[0] != b[0]:
        return False
    if a[0] in ("opt", "list"):
        return unify(a[1], b[1])
    if a[0] == "tuple":
        return len(a[1]) == len(b[1]) and all(unify(x, y) for x, y in zip(a[1], b[1]))
    if a[0] == "dict":
        return unify(a[1], b[1]) and unify(a[2], b[2])
    return a == b


STRUCT_PARAMS = {}


def lean_type(t, top=True):
    t = resolve(t)
    if isinstance(t, TVar):
        return "_"
    k = t[0]
    if k == "int":
        return "Int"
    if k == "bool":
        return "Bool"
    if k == "path":
        return "Py.Path"
    if k == "char":
        return "Char"
    if k == "unit":
        return "Unit"
    if k == "u64":
        return "UInt64"
    if k == "filepos":
        return "Int"
    if k == "struct":
        sp = STRUCT_PARAMS.get(t[1])
        if sp:
            return t[1] + " " + " ".join(sp) if top else "(" + t[1] + " " + " ".join(sp) + ")"
        return t[1]
    if k == "abstract":
        return t[1]
    if k == "dyn":
        return "Py.Val R" if top else "(Py.Val R)"
    if k == "num":
        return "R"
    if k == "union":
        sp = STRUCT_PARAMS.get(t[1])
        if sp:
            return t[1] + " " + " ".join(sp) if top else "(" + t[1] + " " + " ".join(sp) + ")"
        return t[1]
    s = None
    if k == "opt":
        s = "Option " + lean_type(t[1], False)
    elif k == "list":
        s = "List " + lean_type(t[1], False)
    elif k == "tuple":
        return "(" + " × ".join(lean_type(x, False) for x in t[1]) + ")"
    elif k == "dict":
        s = "Py.Dict %s %s" % (lean_type(t[1], False), lean_type(t[2], False))
    elif k == "fn":
        s = " → ".join([lean_type(x, False) for x in t[1]] + [("Except Py.Exc " + lean_type(t[2], False)) if t[3] else lean_type(t[2], False)])
        if not t[1]:
            return s if (top or not t[3]) else "(" + s + ")"
    return s if top else "(" + s + ")"


LEAN_KEYWORDS = {
    "end", "from", "at", "open", "in", "then", "fun", "do", "let", "have", "show", "match", "with", "if", "else",
    "for", "return", "instance", "structure", "class", "def", "theorem", "Type", "Prop", "Sort", "mut", "where",
    "namespace", "section", "variable", "import", "export", "by", "using", "nomatch", "this", "break", "continue",
    "try", "catch", "finally", "unless", "macro", "syntax", "deriving", "extends", "abbrev", "example", "axiom",
    "set_option", "attribute", "local", "private", "protected", "partial", "unsafe", "mutual", "inductive",
    "calc", "infix", "notation", "universe", "Step", "some", "none", "true", "false", "pure", "throw",
}


def lname(n):
    return "«%s»" % n if n in LEAN_KEYWORDS else n


def atom(code):
    """parenthesise unless obviously atomic"""
    if re.fullmatch(r"[\w.«»']+", code) or (code.startswith("(") and _balanced(code)):
        return code
    if code.startswith("[") and code.endswith("]") and _balanced(code):
        return code
    return "(" + code + ")"


def _balanced(code):
    """does the opening bracket at position 0 close at the very end"""
    depth = 0
    pairs = {"(": ")", "[": "]"}
    opener = code[0]
    closer = pairs[opener]
    for i, ch in enumerate(code):
        if ch == opener:
            depth += 1
        elif ch == closer:
            depth -= 1
            if depth == 0:
                return i == len(code) - 1
    return False


def char_lit(c):
    if c == "'":
        return "'\\''"
    if c == "\\":
        return "'\\\\'"
    if not (32 <= ord(c) < 127):
        return "(Char.ofNat %d)" % ord(c)
    return "'%s'" % c


def typed(e):
    """code of `e`; a bare integer literal gets its type (`(0 : Int)`), Lean would default it to Nat"""
    if resolve(e.ty) == INT and re.fullmatch(r"\(?-?\d+\)?", e.code):
        return "(%s : Int)" % e.code.strip("()")
    return e.code


class E:
    """a translated expression: Lean code, type, and for booleans optionally the Prop form"""

    def __init__(self, code, ty, prop=None):
        self.code = code
        self.ty = ty
        self.prop = prop

    def as_prop(self):
        if self.prop is not None:
            return self.prop
        return "%s = true" % atom(self.code)


# ------------------------------------------------------------------------------------------------
# TRUSTED TABLES
# ------------------------------------------------------------------------------------------------

# Python objects -> Lean structures: attribute name -> type.  `isinstance` tests map to Bool fields.
STRUCTS = {
    # `obj.data_type` is a TdmsType class; only its `size` is read (None for strings)
    "DataType": [("size", Opt(INT))],
    # DaqMxScaler / DigitalLineScaler
    "DaqMxScaler": [("raw_buffer_index", INT)],
    "DaqMxMetadata": [("raw_data_widths", Lst(INT)), ("scalers", Lst(Struct("DaqMxScaler")))],
    # BaseSegmentObject / TdmsSegmentObject / DaqmxSegmentObject.  `daqmx_metadata` does not exist on a
    # TdmsSegmentObject (reading it raises AttributeError): `none`.
    "SegmentObject": [("path", PATH), ("has_data", BOOL), ("number_values", INT), ("data_size", INT),
                      ("data_type", Opt(Struct("DataType"))), ("is_daqmx", BOOL),
                      ("daqmx_metadata", Opt(Struct("DaqMxMetadata")))],
    "TdmsSegment": [("toc_mask", INT), ("next_segment_pos", INT), ("data_position", INT),
                    ("segment_incomplete", BOOL), ("ordered_objects", Lst(Struct("SegmentObject"))),
                    ("num_chunks", INT), ("final_chunk_lengths_override", Opt(Dct(PATH, INT))),
                    ("chunk_size_cached", Opt(INT)), ("has_daqmx_objects_cached", Opt(BOOL))],
}
STRUCTS.update({
    # ObjectMetadata (reader.py): only num_values is read by the translated functions
    "ObjectMetadata": [("num_values", INT)],
    # TdmsReader: `_segments` is None until the metadata has been read
    "TdmsReader": [("_segments", Opt(Lst(Struct("TdmsSegment")))),
                   ("object_metadata", Dct(PATH, Struct("ObjectMetadata")))],
    # RawChannelDataChunk (base_segment.py); `Value` is an opaque type parameter
    "RawChannelDataChunk": [("data", Opt(Lst(Abstract("Value")))),
                            ("scaler_data", Opt(Dct(INT, Lst(Abstract("Value")))))],
    # TdmsChannel (tdms.py): `_cached_chunk_bounds` is only read when `_cached_chunk` is not None, and both
    # are assigned together, so it is given a non-optional type
    "TdmsChannel": [("_length", INT), ("_cached_chunk", Opt(Lst(Abstract("Value")))),
                    ("_cached_chunk_bounds", Tup(INT, INT))],
})
STRUCT_PARAMS.update({"RawChannelDataChunk": ["Value"], "TdmsChannel": ["Value"]})
STRUCTS["TdmsTimestamp"] = [("seconds", INT), ("second_fractions", INT)]
STRUCT_ORDER = ["DataType", "DaqMxScaler", "DaqMxMetadata", "SegmentObject", "TdmsSegment", "ObjectMetadata",
                "TdmsReader", "RawChannelDataChunk", "TdmsChannel", "TdmsTimestamp"]

# attributes that only some of the Python classes mapped to the structure have: the field is an Option and
# reading it raises AttributeError when absent
ABSENT_ATTR = {("SegmentObject", "daqmx_metadata")}

# isinstance(x : struct, PythonClass) -> Bool field of the structure
ISINSTANCE = {("SegmentObject", "DaqmxSegmentObject"): "is_daqmx"}

# Python constructors -> structure literal: class name -> (structure, fields in argument order)
CONSTRUCTORS = {"RawChannelDataChunk": ("RawChannelDataChunk", ["data", "scaler_data"])}

# calls that are dropped when they are a whole statement
IGNORED_CALL_PREFIXES = ("log.", "warnings.warn")
# context managers whose body is executed as is
TRANSPARENT_WITH = ("Timer",)


class Target:
    """one Python function to translate.
    file, qualname : where it is ("Class.method" or "function")
    params         : types of the parameters after `self`, in order
    ret            : type of the value returned by `return e` (None: the function returns None)
    """

    def __init__(self, file, qualname, params, ret=None, doc=None, abstract=None, generator=False, ret_yield=None,
                 replace=None, type_params=None, while_fuel=None, region=None, rewrite=None, lean_name=None):
        self.file = file
        self.qualname = qualname
        self.params = params
        self.ret = ret
        self.doc = doc
        # calls that are NOT translated but become (function) parameters of the generated definition:
        #   key -> (lean parameter name, Fn type, selector); key is a function name ("np.empty"), a pair
        #   (structure name, method name), ("len", abstract type) or ("[::]", abstract type);
        #   selector: which of ["recv", 0, 1, …] (receiver / positional arguments) are passed, in order
        self.abstract = abstract or {}
        self.generator = generator        # the function `yield`s; the definition returns the list of yielded values
        self.ret_yield = ret_yield
        # statements replaced before translation: [(predicate on the ast statement, replacement source)]
        self.replace = replace or []
        self.type_params = type_params or []   # opaque Lean types the definition is generic in
        # bound on the number of iterations of the `while` loops (Python expression over the parameters); the
        # loop raises "NonTermination" when it is exceeded, so a wrong bound makes the tied theorem fail
        self.while_fuel = while_fuel
        # region = (first statement predicate, last statement predicate, [(input name, type)], [output names]):
        # only that consecutive slice of the function's top-level statements is translated, as a function from the
        # inputs to the tuple of outputs (`params` / `ret` are then ignored)
        self.region = region
        self.rewrite = rewrite       # ast.NodeTransformer class applied to the function before translation
        self._lean_name = lean_name
        self.cls, _, self.name = qualname.rpartition(".")
        # filled by the translator
        self.effect = None
        self.mutates = None
        self.param_names = None

    @property
    def lean_name(self):
        return self._lean_name or self.qualname


SEG = "nptdms/tdms_segment.py"
DAQ = "nptdms/daqmx.py"

TARGETS = [
    Target(DAQ, "_lists_are_equal", [Lst(INT), Lst(INT)], BOOL),
    Target(DAQ, "get_buffer_dimensions", [Lst(Struct("SegmentObject"))], Lst(Tup(INT, INT))),
    Target(DAQ, "get_daqmx_chunk_size", [Lst(Struct("SegmentObject"))], INT),
    Target(DAQ, "get_daqmx_final_chunk_lengths", [Lst(Struct("SegmentObject")), INT], Dct(PATH, INT)),
    Target(SEG, "TdmsSegment._have_daqmx_objects", [], Opt(BOOL)),
    Target(SEG, "TdmsSegment._get_chunk_size", [], INT),
    Target(SEG, "TdmsSegment._compute_final_chunk_lengths", [INT, INT], Dct(PATH, INT)),
    Target(SEG, "TdmsSegment._calculate_chunks", [], None),
]

RD = "nptdms/reader.py"
TD = "nptdms/tdms.py"
CHUNK = Abstract("Chunk")
SEGT = Struct("TdmsSegment")


def _is_index_cache_lookup(s):
    """the `try: (first_segment, segment_offsets) = self._segment_channel_offsets[path] except KeyError: build`
    statement of reader.py"""
    return isinstance(s, ast.Try) and len(s.body) == 1 and "_segment_channel_offsets" in ast.unparse(s.body[0])


_READER_ABSTRACT = {
    ("TdmsReader", "_ensure_open"): ("ensure_open", Fn([], UNIT, True), []),
    ("TdmsReader", "_verify_segment_start"): ("verify_segment_start", Fn([SEGT], UNIT, True), [0]),
    ("TdmsReader", "_channel_index"): ("channel_index", Fn([PATH], Tup(INT, Lst(INT))), [0]),
    ("TdmsSegment", "get_segment_object"): ("get_segment_object", Fn([SEGT, PATH], Opt(Struct("SegmentObject"))), ["recv", 0]),
    ("TdmsSegment", "read_raw_data_for_channel"): ("seg_read", Fn([SEGT, PATH, INT, INT], Lst(CHUNK)), ["recv", 1, 2, 3]),
    ("len", "Chunk"): ("chunk_len", Fn([CHUNK], INT), ["recv"]),
    "_trim_channel_chunk": ("trim_channel_chunk", Fn([CHUNK, INT, INT], CHUNK), [0, 1, 2]),
}
_READER_REPLACE = [(_is_index_cache_lookup, "(first_segment, segment_offsets) = self._channel_index(channel_path)")]
RESULT = Abstract("R")

TARGETS += [
    Target(RD, "_trim_channel_chunk", [Struct("RawChannelDataChunk"), INT, INT], Struct("RawChannelDataChunk"),
           type_params=["Value"]),
    Target(RD, "TdmsReader.read_raw_data_for_channel", [PATH, INT, Opt(INT)], None, generator=True, ret_yield=CHUNK,
           abstract=_READER_ABSTRACT, replace=_READER_REPLACE, type_params=["Chunk"]),
    Target(RD, "TdmsReader.read_channel_chunk_for_index", [PATH, INT], Tup(CHUNK, INT),
           abstract=_READER_ABSTRACT, replace=_READER_REPLACE, type_params=["Chunk"]),
    Target(SEG, "TdmsSegment.read_raw_data_for_channel", [FILEPOS, PATH, INT, Opt(INT)], None, generator=True,
           ret_yield=CHUNK, type_params=["Chunk"],
           abstract={"RawChannelDataChunk.empty": ("empty_chunk", Fn([], CHUNK), []),
                     ("TdmsSegment", "_read_channel_data_chunks"):
                     ("read_channel_data_chunks", Fn([INT, PATH, INT, INT, INT], Lst(CHUNK)), [0, 2, 3, 4, 5])}),
    Target(TD, "TdmsChannel._read_slice", [Opt(INT), Opt(INT), Opt(INT)], RESULT, type_params=["Value", "R"],
           abstract={"np.empty": ("empty", Fn([], RESULT), []),
                     ("TdmsChannel", "read_data"): ("read_data", Fn([INT, INT], RESULT), [0, 1]),
                     ("[::]", "R"): ("step_slice", Fn([RESULT, INT], RESULT), [])}),
    Target("nptdms/common.py", "_components_to_path", [Opt(Lst(CHAR)), Opt(Lst(CHAR))], Lst(CHAR)),
    Target("nptdms/common.py", "_path_components", [Lst(CHAR)], None, generator=True, ret_yield=Lst(CHAR),
           while_fuel="len(path) + 1"),
    Target(TD, "TdmsChannel._read_at_index", [INT], Abstract("Value"), type_params=["Value", "Chunk"],
           abstract={("TdmsChannel", "_read_channel_data_chunk_for_index"):
                     ("read_chunk_for_index", Fn([INT], Tup(CHUNK, INT), True), [0]),
                     ("TdmsChannel", "_scale_data"): ("scale_data", Fn([CHUNK], Lst(Abstract("Value")), True), [0])}),
]


# ---- numpy datetime arithmetic (C12): trusted rewriting to integers ---------------------------------

def _is_td64(node):
    return isinstance(node, ast.Call) and ast.unparse(node.func) == "np.timedelta64" and len(node.args) == 2 \
        and isinstance(node.args[1], (ast.Constant, ast.Name))


class TimedeltaMicroseconds(ast.NodeTransformer):
    """a `timedelta64[us]` value is its integer number of microseconds:
    `np.timedelta64(k, 's')` -> `k * 1000000`, `np.timedelta64(k, 'us')` -> `k`,
    `int(x / np.timedelta64(1, 'us'))` -> `x` (an exact quotient of integers)"""

    def visit_Call(self, node):
        if isinstance(node.func, ast.Name) and node.func.id == "int" and len(node.args) == 1 \
                and isinstance(node.args[0], ast.BinOp) and isinstance(node.args[0].op, ast.Div) \
                and _is_td64(node.args[0].right) and ast.unparse(node.args[0].right) == "np.timedelta64(1, 'us')":
            return self.visit(node.args[0].left)
        self.generic_visit(node)
        if _is_td64(node) and isinstance(node.args[1], ast.Constant):
            if node.args[1].value == "s":
                return ast.BinOp(left=node.args[0], op=ast.Mult(), right=ast.Constant(value=1000000))
            if node.args[1].value == "us":
                return node.args[0]
        return node


class TimedeltaReturn(ast.NodeTransformer):
    """`return EPOCH + np.timedelta64(a, 's') + np.timedelta64(b, resolution)` -> `return (a, b)`: the result
    is identified with the integer magnitudes of its two timedelta terms"""

    def visit_Return(self, node):
        calls = []

        class V(ast.NodeVisitor):
            def visit_Call(self, n):
                if _is_td64(n):
                    calls.append(n.args[0])
                else:
                    self.generic_visit(n)
        if node.value is not None:
            V().visit(node.value)
        if calls:
            return ast.copy_location(ast.Return(value=ast.Tuple(elts=calls, ctx=ast.Load())), node)
        return node


class SecondFractionsField(ast.NodeTransformer):
    """`self['second_fractions']` (one element of the uint64 field) -> the parameter `second_fractions`"""

    def visit_Subscript(self, node):
        if ast.unparse(node) == "self['second_fractions']":
            return ast.copy_location(ast.Name(id="second_fractions", ctx=ast.Load()), node)
        return self.generic_visit(node)


def _assigns(name):
    return lambda st: isinstance(st, ast.Assign) and len(st.targets) == 1 and isinstance(st.targets[0], ast.Name) \
        and st.targets[0].id == name


TS = "nptdms/timestamp.py"
TARGETS += [
    Target(TS, "TdmsTimestamp.as_datetime64", [Lst(CHAR)], Tup(INT, INT), rewrite=TimedeltaReturn),
    Target(TS, "_multiply_high", [U64, INT], U64),
    Target(TS, "TimestampArray.as_datetime64", [], None, rewrite=SecondFractionsField,
           lean_name="TimestampArray.as_datetime64_steps",
           region=(_assigns("fractions"), _assigns("steps"), [("second_fractions", U64), ("steps_per_second", INT)],
                   [("steps", U64)])),
    Target("nptdms/types.py", "TimeStamp.__init__", [], None, rewrite=TimedeltaMicroseconds,
           lean_name="TimeStamp.init_encode",
           region=(_assigns("seconds"), _assigns("second_fractions"), [("epoch_delta", INT)],
                   [("seconds", INT), ("second_fractions", INT)])),
]


# ---- C02: which branch is taken for a raw data index header -----------------------------------------
_SEGOBJ = Struct("SegmentObject")
_C02_ABSTRACT = {
    ("TdmsSegment", "_new_segment_object"): ("new_segment_object", Fn([PATH, INT], _SEGOBJ), [0, 1], ("fresh",)),
    ("SegmentObject", "read_raw_data_index"): ("read_raw_data_index", Fn([_SEGOBJ, INT], _SEGOBJ, True), ["recv", 1],
                                               ("updates_receiver",)),
}
TARGETS += [
    Target(RD, "_number_of_segment_values", [_SEGOBJ, SEGT], INT),
    Target(SEG, "TdmsSegment._reuse_previous_object", [_SEGOBJ, INT, Abstract("File"), Abstract("Endian")], None,
           abstract=_C02_ABSTRACT, type_params=["File", "Endian"]),
    Target(SEG, "TdmsSegment._update_existing_object", [INT, _SEGOBJ, INT, Abstract("File"), Abstract("Endian")], None,
           abstract=_C02_ABSTRACT, type_params=["File", "Endian"]),
]


# ------------------------------------------------------------------------------------------------
# source access
# ------------------------------------------------------------------------------------------------

class Source:
    def __init__(self, repo_root, overrides=None):
        self.root = repo_root
        self.overrides = overrides or {}
        self.trees = {}

    def text(self, rel):
        if rel in self.overrides:
            return self.overrides[rel]
        with open(os.path.join(self.root, rel)) as f:
            return f.read()

    def tree(self, rel):
        if rel not in self.trees:
            self.trees[rel] = ast.parse(self.text(rel))
        return self.trees[rel]

    def find_function(self, rel, qualname):
        cls, _, name = qualname.rpartition(".")
        body = self.tree(rel).body
        if cls:
            found = [n for n in body if isinstance(n, ast.ClassDef) and n.name == cls]
            if not found:
                raise Untranslatable("class %s not found in %s" % (cls, rel), qualname)
            body = found[0].body
        found = [n for n in body if isinstance(n, ast.FunctionDef) and n.name == name]
        if len(found) != 1:
            raise Untranslatable("function not found (or defined twice) in %s" % rel, qualname)
        return found[0]

    def module_constant(self, rel, name, seen=()):
        """the defining expression of a module level name, following `from nptdms.x import name`"""
        if (rel, name) in seen:
            return None
        for node in self.tree(rel).body:
            if isinstance(node, ast.Assign) and len(node.targets) == 1 and isinstance(node.targets[0], ast.Name) \
                    and node.targets[0].id == name:
                return rel, node.value
            if isinstance(node, ast.ImportFrom) and node.module and node.module.startswith("nptdms"):
                for al in node.names:
                    if (al.asname or al.name) == name:
                        sub = node.module.replace(".", "/") + ".py"
                        return self.module_constant(sub, al.name, seen + ((rel, name),))
        return None


# ------------------------------------------------------------------------------------------------
# translator: expressions
# ------------------------------------------------------------------------------------------------

class Env:
    def __init__(self, vars=None, narrow=None, fresh=None):
        self.vars = dict(vars or {})       # python local name -> type
        self.narrow = dict(narrow or {})   # source text of a None-able expression -> (lean name, type) once tested
        self.fresh = set(fresh or ())      # locals bound to an object nobody else refers to (copy / constructor)
        self.lazy = {}                     # (part 2) locals bound to a generator expression (evaluated where iterated)

    def copy(self):
        e = Env(self.vars, self.narrow, self.fresh)
        e.lazy = self.lazy
        return e

    def assign(self, name, ty):
        e = self.copy()
        e.vars[name] = ty
        e.fresh.discard(name)
        for k in list(e.narrow):
            if k == name or k.startswith(name + ".") or k.startswith(name + "["):
                del e.narrow[k]
        return e


class Ctx:
    """bindings hoisted in front of the statement being translated: (pattern, code | lines, effectful)"""

    def __init__(self):
        self.binds = []
        self.self_read = False


def ind(lines, n=2):
    return [(i + n, t) for (i, t) in lines]


def L(text):
    return [(0, text)]


def const_value(node):
    """value of a constant integer expression, else None"""
    try:
        if isinstance(node, ast.Constant) and type(node.value) is int:
            return node.value
        if isinstance(node, ast.UnaryOp) and isinstance(node.op, ast.USub):
            v = const_value(node.operand)
            return None if v is None else -v
        if isinstance(node, ast.BinOp):
            a, b = const_value(node.left), const_value(node.right)
            if a is None or b is None:
                return None
            if isinstance(node.op, ast.Add):
                return a + b
            if isinstance(node.op, ast.Sub):
                return a - b
            if isinstance(node.op, ast.Mult):
                return a * b
            if isinstance(node.op, ast.Pow) and 0 <= b < 4096:
                return a ** b
            if isinstance(node.op, ast.LShift) and 0 <= b < 4096:
                return a << b
    except Exception:
        return None
    return None


class Translator:
    def __init__(self, source, targets, structs=None):
        self.src = source
        self.targets = {t.qualname: t for t in targets}
        self.order = list(targets)
        self.structs = structs or STRUCTS
        self.const_defs = {}     # lean name -> (code, type, origin)
        self.done = {}           # qualname -> def text
        self.cur = None          # Target being translated
        self.eff = False
        self.counter = 0
        self.mutates = False
        self.hints = {}

    # -- helpers ---------------------------------------------------------------------------------
    def fail(self, reason, node=None):
        raise Untranslatable(reason, self.cur.qualname if self.cur else None, node)

    def fresh(self):
        self.counter += 1
        return "t%d" % self.counter

    def bind_eff(self, ctx, code, ty):
        if not self.eff:
            raise NeedEffect()
        t = self.fresh()
        ctx.binds.append((t, code, True))
        return E(t, ty)

    def field_type(self, sname, attr, node):
        for (f, ty) in self.structs[sname]:
            if f == attr:
                return ty
        self.fail("attribute `%s` is not in the signature table of %s" % (attr, sname), node)

    def inline_do(self, binds, final):
        """one-line block: binds then final"""
        if not binds:
            return final
        last = binds[-1]
        if last[2] and isinstance(last[1], str) and final in ("pure " + last[0], "pure (%s)" % last[0]):
            # `let t ← m; pure t` is `m`
            if len(binds) == 1:
                return atom(last[1])
            binds, final = binds[:-1], last[1]
        parts = []
        for (pat, code, eff) in binds:
            if not isinstance(code, str):
                self.fail("multi-line binding in an inline position")
            parts.append("let %s %s %s" % (pat, "←" if eff else ":=", code))
        if any(b[2] for b in binds) or self.eff:
            return "(do " + "; ".join(parts + [final]) + ")"
        return "(" + "; ".join(parts + [final]) + ")"

    def coerce(self, e, ty, node=None, ctx=None):
        """code of `e` at type `ty` (inserting `some`)"""
        ty_r, et = resolve(ty), resolve(e.ty)
        if isinstance(ty_r, tuple) and ty_r[0] == "opt" and not (isinstance(et, tuple) and et[0] == "opt") \
                and not isinstance(et, TVar):
            if not unify(ty_r[1], et):
                self.fail("type mismatch: %s expected, %s found" % (lean_type(ty_r), lean_type(et)), node)
            return "some " + atom(typed(e))
        if ctx is not None and isinstance(et, tuple) and et[0] == "opt" and not (isinstance(ty_r, tuple) and ty_r[0] == "opt") \
                and not isinstance(ty_r, TVar):
            # a possibly-None value where the callee uses it as a non-None value: TypeError when None
            if not unify(ty_r, et[1]):
                self.fail("type mismatch: %s expected, %s found" % (lean_type(ty_r), lean_type(et)), node)
            return self.bind_eff(ctx, "Py.notNone %s" % atom(e.code), ty_r).code
        if not unify(ty, e.ty):
            self.fail("type mismatch: %s expected, %s found" % (lean_type(ty_r), lean_type(et)), node)
        return typed(e)

    def truthy(self, e, node=None):
        t = resolve(e.ty)
        if t == BOOL:
            return e
        if t == INT:
            return E("decide (%s ≠ 0)" % e.code, BOOL, "%s ≠ 0" % e.code)
        if isinstance(t, tuple) and t[0] == "opt":
            inner = resolve(t[1])
            if inner == BOOL:
                return E("%s == some true" % atom(e.code), BOOL, "%s = some true" % atom(e.code))
            if inner == INT:
                return E("%s.any (fun v => decide (v ≠ 0))" % atom(e.code), BOOL)
            if isinstance(inner, tuple) and inner[0] == "struct":
                return E("%s.isSome" % atom(e.code), BOOL)
            self.fail("truth value of a %s" % lean_type(t), node)
        if isinstance(t, tuple) and t[0] in ("list", "dict"):
            return E("!%s.isEmpty" % atom(e.code), BOOL)
        if isinstance(t, tuple) and t[0] == "struct":
            return E("true", BOOL, "True")
        self.fail("truth value of a %s" % lean_type(t), node)

    # -- expressions -----------------------------------------------------------------------------
    def ex(self, node, env, ctx):
        m = getattr(self, "ex_" + type(node).__name__, None)
        if m is None:
            self.fail("expression `%s` (%s) is outside the supported subset" % (ast.unparse(node), type(node).__name__), node)
        return m(node, env, ctx)

    def ex_Constant(self, node, env, ctx):
        v = node.value
        if v is True or v is False:
            return E("true" if v else "false", BOOL, "True" if v else "False")
        if v is None:
            return E("none", Opt(TVar()))
        if type(v) is int:
            return E(str(v) if v >= 0 else "(%d)" % v, INT)
        if isinstance(v, str):
            e = E("[" + ", ".join(char_lit(c) for c in v) + "]", Lst(CHAR))
            e.const_str = v
            return e
        self.fail("literal %r" % (v,), node)

    def ex_Name(self, node, env, ctx):
        n = node.id
        if n in env.narrow:
            ln, ty = env.narrow[n]
            return E(ln, ty)
        if n in env.vars:
            if n == "self":
                ctx.self_read = True
            return E(lname(n), env.vars[n])
        return self.module_const(n, node)

    def module_const(self, name, node, sub=None):
        found = self.src.module_constant(self.cur.file, name)
        if found is None:
            self.fail("name `%s` is neither a local variable nor a module constant" % name, node)
        rel, value = found
        lean = name
        if sub is not None:
            if not isinstance(value, ast.Dict):
                self.fail("`%s[%r]`: `%s` is not a dict literal" % (name, sub, name), node)
            hit = [v for k, v in zip(value.keys, value.values) if isinstance(k, ast.Constant) and k.value == sub]
            if len(hit) != 1:
                self.fail("`%s[%r]`: key not found" % (name, sub), node)
            value = hit[0]
            lean = "%s_%s" % (name, re.sub(r"\W", "_", str(sub)))
        if lean not in self.const_defs:
            saved = (self.eff, self.cur)
            self.eff = False
            try:
                cctx = Ctx()
                stub = Target(rel, self.cur.qualname, [])
                self.cur = stub
                e = self.ex(value, Env(), cctx)
                if cctx.binds:
                    self.fail("module constant `%s` is not a constant expression" % name, node)
            except NeedEffect:
                self.eff, self.cur = saved
                self.fail("module constant `%s` is not a constant expression" % name, node)
            finally:
                self.eff, self.cur = saved
            self.const_defs[lean] = (e.code, e.ty, "%s: `%s`" % (rel, ast.unparse(value)))
        code, ty, _ = self.const_defs[lean]
        return E(lname(lean), ty)

    def ex_UnaryOp(self, node, env, ctx):
        if isinstance(node.op, ast.USub):
            a = self.ex(node.operand, env, ctx)
            if not unify(a.ty, INT):
                self.fail("unary minus on a non-int", node)
            return E("-" + atom(a.code), INT)
        if isinstance(node.op, ast.Not):
            a = self.truthy(self.ex(node.operand, env, ctx), node)
            return E("!" + atom(a.code), BOOL, "¬ " + atom(a.as_prop()))
        self.fail("unary operator %s" % type(node.op).__name__, node)

    def ex_BinOp(self, node, env, ctx):
        op = node.op
        # [v] * n
        if isinstance(op, ast.Mult) and isinstance(node.left, ast.List) and len(node.left.elts) == 1:
            v = self.ex(node.left.elts[0], env, ctx)
            n = self.ex(node.right, env, ctx)
            if not unify(n.ty, INT):
                self.fail("list repetition count is not an int", node)
            return E("Py.replicate %s %s" % (atom(n.code), atom(typed(v))), Lst(v.ty))
        a = self.ex(node.left, env, ctx)
        b = self.ex(node.right, env, ctx)
        ta, tb = resolve(a.ty), resolve(b.ty)
        if isinstance(op, ast.Add) and isinstance(ta, tuple) and ta[0] == "list" and resolve(ta[1]) == CHAR and tb == CHAR:
            # `chars += c` with a one-character string c
            return E("%s ++ [%s]" % (atom(a.code), b.code), a.ty)
        if isinstance(op, ast.Add) and isinstance(ta, tuple) and ta[0] == "list":
            if not unify(a.ty, b.ty):
                self.fail("list concatenation of different types", node)
            return E("%s ++ %s" % (atom(a.code), atom(b.code)), a.ty)
        if ta == U64 and tb == U64:
            sym = {ast.Add: "+", ast.Mult: "*", ast.Sub: "-", ast.BitAnd: "&&&", ast.RShift: ">>>", ast.LShift: "<<<",
                   ast.BitOr: "|||"}.get(type(op))
            if sym is None:
                self.fail("operator %s on uint64 values" % type(op).__name__, node)
            return E("%s %s %s" % (atom(a.code), sym, atom(b.code)), U64)
        if ta == U64 or tb == U64:
            self.fail("mixed uint64 / int arithmetic in `%s` (numpy would promote to float64)" % ast.unparse(node), node)
        a, b = self.as_int(a, ctx), self.as_int(b, ctx)
        if not (unify(a.ty, INT) and unify(b.ty, INT)):
            self.fail("operator %s on non-int operands in `%s`" % (type(op).__name__, ast.unparse(node)), node)
        sym = {ast.Add: "+", ast.Sub: "-", ast.Mult: "*"}.get(type(op))
        if sym:
            return E("%s %s %s" % (atom(a.code), sym, atom(b.code)), INT)
        if isinstance(op, (ast.FloorDiv, ast.Mod)):
            cv = const_value(node.right)
            pure_name, eff_name = ("Int.fdiv", "Py.floordiv") if isinstance(op, ast.FloorDiv) else ("Int.fmod", "Py.mod")
            if cv is not None and cv != 0:
                return E("%s %s %s" % (pure_name, atom(a.code), atom(b.code)), INT)
            return self.bind_eff(ctx, "%s %s %s" % (eff_name, atom(a.code), atom(b.code)), INT)
        if isinstance(op, ast.Pow):
            cv = const_value(node.right)
            if cv is None or cv < 0:
                self.fail("`**` with a non-constant or negative exponent", node)
            return E("%s ^ %d" % (atom(a.code), cv), INT)
        if isinstance(op, (ast.LShift, ast.RShift)):
            cv = const_value(node.right)
            if cv is None or cv < 0:
                self.fail("shift by a non-constant or negative count", node)
            return E("%s %s %d" % ("Py.shl" if isinstance(op, ast.LShift) else "Py.shr", atom(a.code), cv), INT)
        if isinstance(op, ast.BitAnd):
            return E("Py.band %s %s" % (atom(a.code), atom(b.code)), INT)
        self.fail("operator %s is outside the supported subset (`%s`)" % (type(op).__name__, ast.unparse(node)), node)

    def char_const(self, e, other):
        """a one-character string literal compared with / appended to a character is that character"""
        ot = resolve(other.ty)
        if isinstance(ot, tuple) and ot[0] == "opt":
            ot = resolve(ot[1])
        if getattr(e, "const_str", None) is not None and len(e.const_str) == 1 and ot == CHAR:
            return E(char_lit(e.const_str), CHAR)
        return e

    def as_int(self, e, ctx):
        """`None` used as a number raises TypeError"""
        t = resolve(e.ty)
        if isinstance(t, tuple) and t[0] == "opt" and resolve(t[1]) == INT:
            return self.bind_eff(ctx, "Py.notNone %s" % atom(e.code), INT)
        return e

    def ex_BoolOp(self, node, env, ctx):
        is_and = isinstance(node.op, ast.And)
        first = self.truthy(self.ex(node.values[0], env, ctx), node)
        acc = first
        for v in node.values[1:]:
            sub = Ctx()
            b = self.truthy(self.ex(v, env, sub), node)
            if sub.binds:
                # the operand can raise: keep the short circuit
                inner = self.inline_do(sub.binds, "pure " + atom(b.code))
                if is_and:
                    code = "(if %s then %s else pure false)" % (acc.as_prop(), inner)
                else:
                    code = "(if %s then pure true else %s)" % (acc.as_prop(), inner)
                acc = self.bind_eff(ctx, code, BOOL)
            elif is_and and b.code == "true":
                pass      # an object is always true
            elif is_and:
                acc = E("%s && %s" % (atom(acc.code), atom(b.code)), BOOL, "%s ∧ %s" % (atom(acc.as_prop()), atom(b.as_prop())))
            else:
                acc = E("%s || %s" % (atom(acc.code), atom(b.code)), BOOL, "%s ∨ %s" % (atom(acc.as_prop()), atom(b.as_prop())))
        return acc

    def none_test(self, node):
        """(expr, is_none) when `node` is `expr is None` / `expr is not None`"""
        if isinstance(node, ast.Compare) and len(node.ops) == 1 and isinstance(node.ops[0], (ast.Is, ast.IsNot)) \
                and isinstance(node.comparators[0], ast.Constant) and node.comparators[0].value is None:
            return node.left, isinstance(node.ops[0], ast.Is)
        return None

    def ex_Compare(self, node, env, ctx):
        nt = self.none_test(node)
        if nt:
            x = self.ex(nt[0], env, ctx)
            t = resolve(x.ty)
            if not (isinstance(t, tuple) and t[0] == "opt"):
                self.fail("`%s`: the operand is never None according to the signature table" % ast.unparse(node), node)
            f = "isNone" if nt[1] else "isSome"
            return E("%s.%s" % (atom(x.code), f), BOOL)
        operands = [self.ex(node.left, env, ctx)] + [None] * len(node.comparators)
        props = []
        for i, (op, rn) in enumerate(zip(node.ops, node.comparators)):
            left = operands[i]
            if isinstance(op, (ast.In, ast.NotIn)):
                if not isinstance(rn, (ast.Tuple, ast.List)):
                    self.fail("`in` is only supported with a literal tuple on the right", node)
                alts = [self.ex(c, env, ctx) for c in rn.elts]
                for c in alts:
                    if not unify(left.ty, c.ty):
                        self.fail("`in`: element types differ", node)
                p = " ∨ ".join("%s = %s" % (atom(left.code), atom(c.code)) for c in alts) or "False"
                props.append(p if isinstance(op, ast.In) else "¬ (%s)" % p)
                operands[i + 1] = left
                continue
            right = self.ex(rn, env, ctx)
            operands[i + 1] = right
            sym = {ast.Eq: "=", ast.NotEq: "≠", ast.Lt: "<", ast.LtE: "≤", ast.Gt: ">", ast.GtE: "≥"}.get(type(op))
            if sym is None:
                self.fail("comparison %s" % type(op).__name__, node)
            if sym not in ("=", "≠"):
                left, right = self.as_int(left, ctx), self.as_int(right, ctx)
                operands[i + 1] = right
            left, right = self.char_const(left, right), self.char_const(right, left)
            operands[i + 1] = right
            lt, rt = resolve(left.ty), resolve(right.ty)
            l_opt = isinstance(lt, tuple) and lt[0] == "opt"
            r_opt = isinstance(rt, tuple) and rt[0] == "opt"
            if sym in ("=", "≠") and l_opt != r_opt and not isinstance(lt, TVar) and not isinstance(rt, TVar):
                # `x == v` with x possibly None: equal only when x is that value
                if l_opt and unify(lt[1], right.ty):
                    props.append("%s %s some %s" % (atom(left.code), sym, atom(typed(right))))
                    continue
                if r_opt and unify(rt[1], left.ty):
                    props.append("some %s %s %s" % (atom(typed(left)), sym, atom(right.code)))
                    continue
            if not unify(left.ty, right.ty):
                self.fail("comparison of different types in `%s`" % ast.unparse(node), node)
            t = resolve(left.ty)
            if sym not in ("=", "≠") and t != INT:
                self.fail("ordering comparison on non-ints in `%s`" % ast.unparse(node), node)
            if isinstance(t, tuple) and t[0] in ("struct", "abstract"):
                self.fail("equality of objects in `%s`" % ast.unparse(node), node)
            props.append("%s %s %s" % (atom(left.code), sym, atom(right.code)))
        prop = props[0] if len(props) == 1 else " ∧ ".join(atom(p) for p in props)
        return E("decide (%s)" % prop, BOOL, prop)

    def ex_IfExp(self, node, env, ctx):
        lines, ty, eff = self.cond_lines(node.test, env, ctx,
                                         lambda e, c: self.ex(node.body, e, c),
                                         lambda e, c: self.ex(node.orelse, e, c), node)
        t = self.fresh()
        if len(lines) == 1 and not eff:
            self.counter -= 1
            return E(lines[0][1], ty)
        if eff and not self.eff:
            raise NeedEffect()
        ctx.binds.append((t if _has_tvar(resolve(ty)) else "%s : %s" % (t, lean_type(ty)), lines, eff))
        return E(t, ty)

    def cond_lines(self, test, env, ctx, then_fn, else_fn, node):
        """lines of a conditional EXPRESSION; both branches give a value of the same type.
        returns (lines, type, effectful)"""
        result_ty = TVar()
        state = {"eff": False}

        def leaf(fn):
            def k(e):
                sub = Ctx()
                v = fn(e, sub)
                if not unify(result_ty, v.ty):
                    # T and None
                    vt, rt = resolve(v.ty), resolve(result_ty)
                    self.fail("branches of `%s` have different types" % ast.unparse(node), node)
                return (sub, v)
            return k

        def render(pair_fn, e):
            sub, v = pair_fn(e)
            if sub.binds:
                if any(b[2] for b in sub.binds):
                    state["eff"] = True
                return ("binds", sub, v)
            return ("pure", sub, v)

        # two passes: first find out whether any leaf is effectful, then emit
        leaves = []
        tree = self.cond_tree(test, env, ctx, lambda e: leaves.append(render(leaf(then_fn), e)) or len(leaves) - 1,
                              lambda e: leaves.append(render(leaf(else_fn), e)) or len(leaves) - 1)
        eff = state["eff"]
        if eff and not self.eff:
            raise NeedEffect()

        def leaf_lines(i):
            kind, sub, v = leaves[i]
            out = []
            for b in sub.binds:
                out += self.bind_lines(b)
            out += L(("pure " + atom(typed(v))) if eff else typed(v))
            return out

        lines = self.render_tree(tree, leaf_lines, eff)
        if len(lines) == 3 and lines[0][1].startswith("if ") and all(len(x[1]) < 60 for x in lines) and not eff:
            # if c then / a / else b  -> one line
            pass
        if not eff and all(len(leaves[i][1].binds) == 0 for i in range(len(leaves))) and tree[0] == "if" \
                and isinstance(tree[2], int) and isinstance(tree[3], int):
            return L("if %s then %s else %s" % (tree[1], typed(leaves[tree[2]][2]), typed(leaves[tree[3]][2]))), result_ty, False
        return lines, result_ty, eff

    def bind_lines(self, b):
        pat, code, eff = b
        arrow = "←" if eff else ":="
        if isinstance(code, str):
            return L("let %s %s %s" % (pat, arrow, code))
        return L("let %s %s" % (pat, arrow)) + ind(code)

    # decision trees: ("if", prop, T, F) | ("match", scrutinee, bound name, T_none, F_some) | leaf
    def cond_tree(self, test, env, ctx, on_true, on_false):
        if isinstance(test, ast.UnaryOp) and isinstance(test.op, ast.Not) and self.has_none_test(test.operand):
            return self.cond_tree(test.operand, env, ctx, on_false, on_true)
        if isinstance(test, ast.BoolOp) and self.has_none_test(test):
            head, rest = test.values[0], test.values[1:]
            rest_node = rest[0] if len(rest) == 1 else ast.BoolOp(op=test.op, values=rest)
            if isinstance(test.op, ast.Or):
                return self.cond_tree(head, env, ctx, on_true,
                                      lambda e: self.cond_tree(rest_node, e, None, on_true, on_false))
            return self.cond_tree(head, env, ctx, lambda e: self.cond_tree(rest_node, e, None, on_true, on_false),
                                  on_false)
        nt = self.none_test(test)
        if nt is not None:
            key = ast.unparse(nt[0])
            if key in env.narrow:
                # already known not to be None here
                return on_false(env) if nt[1] else on_true(env)
            sub = ctx if ctx is not None else Ctx()
            x = self.ex(nt[0], env, sub)
            if ctx is None and sub.binds:
                self.fail("`%s` can raise in a short-circuit position" % key, test)
            t = resolve(x.ty)
            if not (isinstance(t, tuple) and t[0] == "opt"):
                self.fail("`%s`: the operand is never None according to the signature table" % ast.unparse(test), test)
            bound = nt[0].id if isinstance(nt[0], ast.Name) else self.narrow_name(key, env, test)
            e_some = env.copy()
            e_some.narrow[key] = (lname(bound), t[1])
            none_branch = (on_true if nt[1] else on_false)(env)
            some_branch = (on_false if nt[1] else on_true)(e_some)
            return ("match", x.code, lname(bound), none_branch, some_branch)
        sub = ctx if ctx is not None else Ctx()
        c = self.truthy(self.ex(test, env, sub), test)
        if ctx is None and sub.binds:
            self.fail("`%s` can raise in a short-circuit position next to a None test" % ast.unparse(test), test)
        return ("if", c.as_prop(), on_true(env), on_false(env))

    def narrow_name(self, key, env, node):
        """Lean name for the non-None value of the expression with source text `key`"""
        n = re.sub(r"\W+", "_", key).strip("_")
        if n in env.vars:
            self.fail("local variable `%s` clashes with the name used for `%s`" % (n, key), node)
        return n

    def has_none_test(self, node):
        return any(self.none_test(n) is not None for n in ast.walk(node))

    def render_tree(self, tree, leaf_lines, eff):
        if not isinstance(tree, tuple):
            return leaf_lines(tree)
        if tree[0] == "if":
            t_lines = self.render_tree(tree[2], leaf_lines, eff)
            f_lines = self.render_tree(tree[3], leaf_lines, eff)
            return self.if_lines(tree[1], t_lines, f_lines, eff)
        _, scrut, bound, n_lines, s_lines = tree
        n_lines = self.peephole(self.render_tree(n_lines, leaf_lines, eff))
        s_lines = self.peephole(self.render_tree(s_lines, leaf_lines, eff))
        return L("match %s with" % scrut) + L("| none =>") + ind(n_lines) + L("| some %s =>" % bound) + ind(s_lines)

    @staticmethod
    def peephole(lines):
        """`let x := e` / `x`  ->  `e`;   `let t ← m` / `pure t`  ->  `m`"""
        if len(lines) == 2 and lines[0][0] == lines[1][0] and isinstance(lines[0][1], str) and isinstance(lines[1][1], str):
            m = re.fullmatch(r"let ([\w«»']+)(?: : [^:=←]+)? (:=|←) (.*)", lines[0][1])
            if m:
                n, arrow, rhs = m.group(1), m.group(2), m.group(3)
                last = lines[1][1]
                if arrow == ":=" and n != "self":
                    for tmpl in ("%s", "pure %s", "some %s", "pure (some %s)"):
                        if last == tmpl % n:
                            return [(lines[0][0], tmpl % atom(rhs) if tmpl != "%s" else rhs)]
                elif arrow == "←" and last == "pure %s" % n:
                    return [(lines[0][0], rhs)]
        return lines

    def if_lines(self, prop, t_lines, f_lines, eff):
        t_lines, f_lines = self.peephole(t_lines), self.peephole(f_lines)
        out = L("if %s then" % prop) + ind(t_lines)
        if f_lines and f_lines[0][0] == 0 and f_lines[0][1].startswith("if ") and not any(
                i == 0 and not (t.startswith("else") or t.startswith("if ")) for (i, t) in f_lines):
            # else if …
            return out + [(0, "else " + f_lines[0][1])] + f_lines[1:]
        return out + L("else") + ind(f_lines)

    # -- attributes, subscripts, containers --------------------------------------------------------
    def ex_Attribute(self, node, env, ctx):
        key = ast.unparse(node)
        if key in env.narrow:
            ln, ty = env.narrow[key]
            return E(ln, ty)
        v = self.ex(node.value, env, ctx)
        t = resolve(v.ty)
        if isinstance(t, tuple) and t[0] == "opt" and isinstance(resolve(t[1]), tuple) and resolve(t[1])[0] == "struct":
            # attribute of a possibly-None object
            v = self.bind_eff(ctx, "Py.attr %s" % atom(v.code), t[1])
            t = resolve(t[1])
        if not (isinstance(t, tuple) and t[0] == "struct"):
            self.fail("attribute `.%s` of a %s (`%s`)" % (node.attr, lean_type(t), key), node)
        fty = self.field_type(t[1], node.attr, node)
        if (t[1], node.attr) in ABSENT_ATTR:
            # the attribute does not exist on some objects of this structure: AttributeError
            return self.bind_eff(ctx, "Py.attr %s.%s" % (atom(v.code), lname(node.attr)), resolve(fty)[1])
        return E("%s.%s" % (atom(v.code), lname(node.attr)), fty)

    def ex_Tuple(self, node, env, ctx):
        es = [self.ex(x, env, ctx) for x in node.elts]
        return E("(" + ", ".join(typed(e) for e in es) + ")", Tup(*[e.ty for e in es]))

    def ex_List(self, node, env, ctx):
        es = [self.ex(x, env, ctx) for x in node.elts]
        ty = TVar()
        for e in es:
            if not unify(ty, e.ty):
                self.fail("list literal with elements of different types", node)
        return E("[" + ", ".join(typed(e) for e in es) + "]", Lst(ty))

    def ex_Dict(self, node, env, ctx):
        if not node.keys:
            return E("[]", Dct(TVar(), TVar()))
        kt, vt = TVar(), TVar()
        parts = []
        seen = set()
        for k, v in zip(node.keys, node.values):
            if k is None or not isinstance(k, ast.Constant) or k.value in seen:
                self.fail("dict literal with computed, repeated or `**` keys", node)
            seen.add(k.value)
            ke, ve = self.ex(k, env, ctx), self.ex(v, env, ctx)
            if not (unify(kt, ke.ty) and unify(vt, ve.ty)):
                self.fail("dict literal with entries of different types", node)
            parts.append("(%s, %s)" % (typed(ke), typed(ve)))
        return E("[" + ", ".join(parts) + "]", Dct(kt, vt))

    def ex_Subscript(self, node, env, ctx):
        key = ast.unparse(node)
        if key in env.narrow:
            ln, ty = env.narrow[key]
            return E(ln, ty)
        # module level dict literal with a constant key
        if isinstance(node.value, ast.Name) and node.value.id not in env.vars and isinstance(node.slice, ast.Constant):
            return self.module_const(node.value.id, node, sub=node.slice.value)
        v = self.ex(node.value, env, ctx)
        t = resolve(v.ty)
        if isinstance(node.slice, ast.Slice) and isinstance(t, tuple) and t[0] == "abstract" \
                and ("[::]", t[1]) in self.cur.abstract and node.slice.lower is None and node.slice.upper is None \
                and node.slice.step is not None:
            lean, fty = self.cur.abstract[("[::]", t[1])][:2]
            self.used_abstract.add(lean)
            st = self.ex(node.slice.step, env, ctx)
            return E("%s %s %s" % (lean, atom(v.code), atom(self.coerce(st, INT, node))), fty[2])
        if isinstance(node.slice, ast.Slice):
            if not (isinstance(t, tuple) and t[0] == "list"):
                self.fail("slice of a %s" % lean_type(t), node)
            if node.slice.step is not None:
                self.fail("slice with a step", node)
            lo = self.ex(node.slice.lower, env, ctx) if node.slice.lower is not None else E("0", INT)
            hi = self.ex(node.slice.upper, env, ctx) if node.slice.upper is not None else E("Py.len %s" % atom(v.code), INT)
            if not (unify(lo.ty, INT) and unify(hi.ty, INT)):
                self.fail("slice bounds must be ints", node)
            return E("Py.slice %s %s %s" % (atom(v.code), atom(lo.code), atom(hi.code)), v.ty)
        if isinstance(t, tuple) and t[0] == "tuple":
            cv = const_value(node.slice)
            n = len(t[1])
            if cv is None or not (0 <= cv < n):
                self.fail("tuple index must be a constant in range", node)
            proj = ".2" * cv + (".1" if cv < n - 1 else "")
            return E(atom(v.code) + proj, t[1][cv])
        i = self.ex(node.slice, env, ctx)
        if isinstance(t, tuple) and t[0] == "list":
            if not unify(i.ty, INT):
                self.fail("list index is not an int", node)
            return self.bind_eff(ctx, "Py.index %s %s" % (atom(v.code), atom(i.code)), t[1])
        if isinstance(t, tuple) and t[0] == "dict":
            if not unify(i.ty, t[1]):
                self.fail("dict key type", node)
            return self.bind_eff(ctx, "Py.Dict.getE %s %s" % (atom(v.code), atom(i.code)), t[2])
        self.fail("subscript of a %s (`%s`)" % (lean_type(t), key), node)

    # -- comprehensions ----------------------------------------------------------------------------
    def pattern(self, target, ty, env, node):
        """Lean pattern and extended environment for a `for` / comprehension target"""
        ty = resolve(ty)
        if isinstance(target, ast.Name):
            return lname(target.id), env.assign(target.id, ty)
        if isinstance(target, ast.Tuple):
            if not (isinstance(ty, tuple) and ty[0] == "tuple" and len(ty[1]) == len(target.elts)):
                self.fail("cannot unpack a %s into %d names" % (lean_type(ty), len(target.elts)), node)
            parts = []
            for sub, sty in zip(target.elts, ty[1]):
                p, env = self.pattern(sub, sty, env, node)
                parts.append(p)
            return "(" + ", ".join(parts) + ")", env
        self.fail("loop target `%s`" % ast.unparse(target), node)

    def iterable(self, node, env, ctx):
        """a Python iterable as a Lean list: (code, element type)"""
        if isinstance(node, ast.Call) and isinstance(node.func, ast.Attribute) and node.func.attr == "items" and not node.args:
            d = self.ex(node.func.value, env, ctx)
            t = resolve(d.ty)
            if isinstance(t, tuple) and t[0] == "dict":
                return d.code, Tup(t[1], t[2])
        e = self.ex(node, env, ctx)
        t = resolve(e.ty)
        if isinstance(t, tuple) and t[0] == "list":
            return e.code, t[1]
        self.fail("cannot iterate over a %s (`%s`)" % (lean_type(t), ast.unparse(node)), node)

    def lam(self, pat, env2, body_fn):
        """`fun pat => body`, pure when possible: (code, E of the body, effectful)"""
        saved = (self.eff, self.counter)
        try:
            self.eff = False
            sub = Ctx()
            e = body_fn(env2, sub)
            return "fun %s => %s" % (pat, self.inline_do(sub.binds, typed(e))), e, False
        except NeedEffect:
            pass
        finally:
            self.eff = saved[0]
        self.counter = saved[1]
        if not self.eff:
            raise NeedEffect()
        sub = Ctx()
        e = body_fn(env2, sub)
        return "fun %s => %s" % (pat, self.inline_do(sub.binds, "pure " + atom(typed(e)))), e, True

    def comp_parts(self, node, env, ctx):
        if len(node.generators) != 1 or node.generators[0].is_async:
            self.fail("comprehension with more than one `for`", node)
        g = node.generators[0]
        it_code, elt_ty = self.iterable(g.iter, env, ctx)
        pat, env2 = self.pattern(g.target, elt_ty, env, node)
        return g, it_code, elt_ty, pat, env2

    def comp_filtered(self, node, env, ctx):
        """the iterated list after the `if` clauses: (code, elt type, pattern, env)"""
        g, it_code, elt_ty, pat, env2 = self.comp_parts(node, env, ctx)
        code = it_code
        for cond in g.ifs:
            f, _, eff = self.lam(pat, env2, lambda e, c, cond=cond: self.truthy(self.ex(cond, e, c), cond))
            if eff:
                code = self.bind_eff(ctx, "Py.filterE %s (%s)" % (atom(code), f), Lst(elt_ty)).code
            else:
                code = "List.filter (%s) %s" % (f, atom(code))
        return code, elt_ty, pat, env2

    def comp_list(self, node, env, ctx):
        code, elt_ty, pat, env2 = self.comp_filtered(node, env, ctx)
        if isinstance(node.elt, ast.Name) and isinstance(node.generators[0].target, ast.Name) \
                and node.elt.id == node.generators[0].target.id:
            return E(code, Lst(elt_ty))
        f, e, eff = self.lam(pat, env2, lambda en, c: self.ex(node.elt, en, c))
        if eff:
            return self.bind_eff(ctx, "Py.mapE %s (%s)" % (atom(code), f), Lst(e.ty))
        return E("List.map (%s) %s" % (f, atom(code)), Lst(e.ty))

    def ex_DictComp(self, node, env, ctx):
        """`{k: f(v) for (k, v) in d.items()}`: the keys are kept, so it is a map over the entries"""
        if len(node.generators) != 1 or node.generators[0].ifs:
            self.fail("dict comprehension with filters or several `for`s", node)
        g = node.generators[0]
        it_code, elt_ty = self.iterable(g.iter, env, ctx)
        et = resolve(elt_ty)
        if not (isinstance(g.target, ast.Tuple) and len(g.target.elts) == 2 and isinstance(g.target.elts[0], ast.Name)
                and isinstance(node.key, ast.Name) and node.key.id == g.target.elts[0].id
                and isinstance(et, tuple) and et[0] == "tuple"):
            self.fail("dict comprehension that does not keep the keys of `d.items()`", node)
        pat, env2 = self.pattern(g.target, elt_ty, env, node)
        kname = lname(node.key.id)
        f, e, eff = self.lam(pat, env2, lambda en, c: E("(%s, %s)" % (kname, typed(self.ex(node.value, en, c))), TVar()))
        vt = TVar()
        # type of the values: translate once more for the type only (cheap)
        sub = Ctx()
        saved = (self.eff, self.counter)
        try:
            self.eff = True
            vt = self.ex(node.value, env2, sub).ty
        finally:
            self.eff, self.counter = saved
        if eff:
            return self.bind_eff(ctx, "Py.mapE %s (%s)" % (atom(it_code), f), Dct(et[1][0], vt))
        return E("List.map (%s) %s" % (f, atom(it_code)), Dct(et[1][0], vt))

    ex_ListComp = comp_list
    ex_GeneratorExp = comp_list

    def comp_quant(self, node, env, ctx, is_any):
        """`any(elt for x in xs if c)` = exists x, c and elt (evaluated in that order, stopping at the first hit);
        `all(elt for x in xs if c)` = for all x, not c or elt"""
        g, it_code, elt_ty, pat, env2 = self.comp_parts(node, env, ctx)
        conj = list(g.ifs)
        if is_any:
            body = ast.BoolOp(op=ast.And(), values=conj + [node.elt]) if conj else node.elt
        else:
            guard = conj[0] if len(conj) == 1 else ast.BoolOp(op=ast.And(), values=conj)
            body = ast.BoolOp(op=ast.Or(), values=[ast.UnaryOp(op=ast.Not(), operand=guard), node.elt]) if conj else node.elt
        ast.copy_location(body, node)
        ast.fix_missing_locations(body)
        f, e, eff = self.lam(pat, env2, lambda en, c: self.truthy(self.ex(body, en, c), node))
        if eff:
            return self.bind_eff(ctx, "%s %s (%s)" % ("Py.anyE" if is_any else "Py.allE", atom(it_code), f), BOOL)
        return E("%s %s (%s)" % ("List.any" if is_any else "List.all", atom(it_code), f), BOOL)

    # -- calls -------------------------------------------------------------------------------------
    def ex_Call(self, node, env, ctx):
        fn = node.func
        fname = ast.unparse(fn)
        if node.keywords and fname != "np.searchsorted" and fname not in self.cur.abstract:
            self.fail("keyword arguments in `%s`" % ast.unparse(node), node)
        args = node.args
        is_comp = lambda a: isinstance(a, (ast.GeneratorExp, ast.ListComp))
        if isinstance(fn, ast.Name) and fn.id not in env.vars:
            n = fn.id
            if n == "zip_longest" and len(args) == 2 and isinstance(args[1], ast.Subscript) \
                    and isinstance(args[1].slice, ast.Slice) and ast.unparse(args[1].value) == ast.unparse(args[0]) \
                    and const_value(args[1].slice.lower) == 1 and args[1].slice.upper is None and args[1].slice.step is None:
                # the idiom zip_longest(xs, xs[1:]): every element with its successor (None after the last)
                code, ety = self.iterable(args[0], env, ctx)
                return E("Py.pairsWithNext %s" % atom(code), Lst(Tup(ety, Opt(ety))))
            if n == "next" and len(args) == 1 and isinstance(args[0], ast.Name) and args[0].id in env.vars:
                self.fail("`next(%s)` on an iterator variable is only supported as a statement or the right-hand side "
                          "of an assignment" % args[0].id, node)
            if n == "next" and len(args) == 1:
                code, ety = self.iterable(args[0], env, ctx)
                return self.bind_eff(ctx, "Py.next %s" % atom(code), ety)
            if n == "len" and len(args) == 1:
                v = self.ex(args[0], env, ctx)
                t = resolve(v.ty)
                if isinstance(t, tuple) and t[0] in ("abstract", "struct") and ("len", t[1]) in self.cur.abstract:
                    return self.call_abstract(("len", t[1]), [], env, ctx, node, recv=v)
                if not (isinstance(t, tuple) and t[0] in ("list", "dict")):
                    self.fail("len of a %s" % lean_type(t), node)
                return E("Py.len %s" % atom(v.code), INT)
            if n == "int" and len(args) == 1:
                v = self.ex(args[0], env, ctx)
                if not unify(v.ty, INT):
                    self.fail("int() of a non-int", node)
                return v
            if n == "abs" and len(args) == 1:
                v = self.ex(args[0], env, ctx)
                if not unify(v.ty, INT):
                    self.fail("abs() of a non-int", node)
                return E("((%s).natAbs : Int)" % v.code, INT)
            if n == "copy" and len(args) == 1:
                v = self.ex(args[0], env, ctx)
                r = E(v.code, v.ty, v.prop)
                r.fresh = True
                return r
            if n in ("any", "all") and len(args) == 1 and is_comp(args[0]):
                return self.comp_quant(args[0], env, ctx, n == "any")
            if n == "sum" and len(args) == 1:
                v = self.ex(args[0], env, ctx)
                if not unify(v.ty, Lst(INT)):
                    self.fail("sum of a non-int sequence", node)
                return E("Py.sum %s" % atom(v.code), INT)
            if n in ("min", "max"):
                if len(args) == 1:
                    v = self.ex(args[0], env, ctx)
                    if not unify(v.ty, Lst(INT)):
                        self.fail("%s of a non-int sequence" % n, node)
                    return self.bind_eff(ctx, "Py.%sE %s" % (n, atom(v.code)), INT)
                es = [self.ex(a, env, ctx) for a in args]
                if not all(unify(e.ty, INT) for e in es):
                    self.fail("%s of non-ints" % n, node)
                code = atom(typed(es[0]))
                for e in es[1:]:
                    code = "(%s %s %s)" % (n, code, atom(typed(e)))
                return E(code, INT)
            if n == "set" and len(args) == 1:
                v = self.ex(args[0], env, ctx)
                return E("Py.toSet %s" % atom(v.code), v.ty)
            if n == "list" and len(args) == 1:
                code, ety = self.iterable(args[0], env, ctx)
                return E(code, Lst(ety))
            if n == "enumerate" and len(args) == 1:
                code, ety = self.iterable(args[0], env, ctx)
                return E("Py.enumerate %s" % atom(code), Lst(Tup(INT, ety)))
            if n == "zip" and len(args) == 2:
                c1, t1 = self.iterable(args[0], env, ctx)
                c2, t2 = self.iterable(args[1], env, ctx)
                return E("Py.zip %s %s" % (atom(c1), atom(c2)), Lst(Tup(t1, t2)))
            if n == "range" and len(args) == 1:
                v = self.ex(args[0], env, ctx)
                if not unify(v.ty, INT):
                    self.fail("range of a non-int", node)
                return E("Py.range %s" % atom(v.code), Lst(INT))
            if n == "isinstance" and len(args) == 2 and isinstance(args[1], ast.Name):
                v = self.ex(args[0], env, ctx)
                t = resolve(v.ty)
                fld = ISINSTANCE.get((t[1], args[1].id)) if isinstance(t, tuple) and t[0] == "struct" else None
                if fld is None:
                    self.fail("`%s` is not in the isinstance table" % ast.unparse(node), node)
                return E("%s.%s" % (atom(v.code), fld), BOOL)
            if n in self.cur.abstract:
                return self.call_abstract(n, args, env, ctx, node)
            if n in CONSTRUCTORS:
                sname, fields = CONSTRUCTORS[n]
                if len(args) != len(fields):
                    self.fail("constructor `%s` with %d arguments" % (n, len(args)), node)
                parts = []
                for f, a in zip(fields, args):
                    e = self.ex(a, env, ctx)
                    parts.append("%s := %s" % (lname(f), self.coerce(e, self.field_type(sname, f, node), node)))
                r = E("{ " + ", ".join(parts) + " : %s }" % lean_type(Struct(sname)), Struct(sname))
                r.fresh = True
                return r
            if n in self.targets:
                return self.call_target(self.targets[n], None, args, env, ctx, node)
            if n in getattr(self.cur, "abstract", {}):
                return self.call_abstract(n, args, env, ctx, node)
            self.fail("call of `%s`, which is neither supported nor translated" % n, node)
        if fname == "np.uint64" and len(args) == 1:
            v = self.ex(args[0], env, ctx)
            if not unify(v.ty, INT):
                self.fail("np.uint64 of a non-int", node)
            return E("Py.u64 %s" % atom(v.code), U64)
        if fname in ("np.minimum", "np.maximum") and len(args) == 2:
            a = self.ex(args[0], env, ctx)
            b = self.ex(args[1], env, ctx)
            if resolve(a.ty) == U64 and resolve(b.ty) == U64:
                return E("%s %s %s" % ("min" if fname == "np.minimum" else "max", atom(a.code), atom(b.code)), U64)
            self.fail("%s on non-uint64 values" % fname, node)
        if fname == "np.searchsorted":
            side = [k.value.value for k in node.keywords if k.arg == "side" and isinstance(k.value, ast.Constant)]
            if len(args) != 2 or len(node.keywords) != len(side) or (side and side[0] not in ("left", "right")):
                self.fail("np.searchsorted call shape", node)
            a = self.ex(args[0], env, ctx)
            v = self.ex(args[1], env, ctx)
            if not (unify(a.ty, Lst(INT)) and unify(v.ty, INT)):
                self.fail("np.searchsorted on non-int data", node)
            f = "Py.searchsortedRight" if side == ["right"] else "Py.searchsortedLeft"
            return E("%s %s %s" % (f, atom(a.code), atom(v.code)), INT)
        if fname in getattr(self.cur, "abstract", {}):
            return self.call_abstract(fname, args, env, ctx, node)
        if isinstance(fn, ast.Attribute):
            if fn.attr == "join" and len(args) == 1:
                sep = self.ex(fn.value, env, ctx)
                xs = self.ex(args[0], env, ctx)
                if unify(sep.ty, Lst(CHAR)) and getattr(sep, "const_str", None) == "" and unify(xs.ty, Lst(CHAR)):
                    return E(xs.code, Lst(CHAR))        # "".join(list of characters)
                if unify(sep.ty, Lst(CHAR)) and unify(xs.ty, Lst(Lst(CHAR))):
                    return E("Py.join %s %s" % (atom(sep.code), atom(xs.code)), Lst(CHAR))
                self.fail("`join` on these types", node)
            if fn.attr == "replace" and len(args) == 2:
                st = self.ex(fn.value, env, ctx)
                old = self.ex(args[0], env, ctx)
                new = self.ex(args[1], env, ctx)
                if unify(st.ty, Lst(CHAR)) and getattr(old, "const_str", None) is not None and len(old.const_str) == 1 \
                        and unify(new.ty, Lst(CHAR)):
                    return E("Py.replaceChar %s %s %s" % (atom(st.code), char_lit(old.const_str), atom(new.code)), Lst(CHAR))
                self.fail("`replace` is only supported for a one-character literal pattern", node)
            if fn.attr == "get" and len(args) in (1, 2):
                d = self.ex(fn.value, env, ctx)
                t = resolve(d.ty)
                if isinstance(t, tuple) and t[0] == "dict":
                    k = self.ex(args[0], env, ctx)
                    if not unify(k.ty, t[1]):
                        self.fail("dict key type", node)
                    if len(args) == 2:
                        dv = self.ex(args[1], env, ctx)
                        return E("Py.Dict.getD %s %s %s" % (atom(d.code), atom(k.code), atom(self.coerce(dv, t[2], node))), t[2])
                    return E("Py.Dict.get? %s %s" % (atom(d.code), atom(k.code)), Opt(t[2]))
            read_before = ctx.self_read
            recv = self.ex(fn.value, env, ctx)
            ctx.self_read_before_call = read_before
            t = resolve(recv.ty)
            if isinstance(t, tuple) and t[0] == "struct" and (t[1], fn.attr) in self.cur.abstract:
                return self.call_abstract((t[1], fn.attr), args, env, ctx, node, recv=recv)
            if isinstance(t, tuple) and t[0] == "struct" and (t[1] + "." + fn.attr) in self.targets:
                return self.call_target(self.targets[t[1] + "." + fn.attr], (fn.value, recv), args, env, ctx, node)
        self.fail("call `%s` is outside the supported subset" % ast.unparse(node), node)

    def call_abstract(self, name, args, env, ctx, node, recv=None):
        lean, fty, sel = self.cur.abstract[name][:3]
        opts = self.cur.abstract[name][3] if len(self.cur.abstract[name]) > 3 else ()
        self.used_abstract.add(lean)
        es = []
        for i in sel:
            if i == "recv":
                es.append(recv)
            else:
                if i >= len(args):
                    self.fail("abstract call `%s`: argument %d is missing" % (name, i), node)
                es.append(self.ex(args[i], env, ctx))
        if len(es) != len(fty[1]):
            self.fail("abstract call `%s`: %d arguments expected" % (name, len(fty[1])), node)
        code = " ".join([lean] + [atom(self.coerce(e, pt, node, ctx)) for e, pt in zip(es, fty[1])])
        r = self.bind_eff(ctx, code, fty[2]) if fty[3] else E(code, fty[2])
        if "fresh" in opts:
            r.fresh = True
        return r

    def call_target(self, callee, recv, args, env, ctx, node):
        if callee.effect is None:
            self.fail("call of `%s` before it is translated (order of TARGETS)" % callee.qualname, node)
        if callee.abstract or callee.type_params:
            self.fail("call of `%s`, which has abstract parameters" % callee.qualname, node)
        es = [self.ex(a, env, ctx) for a in args]
        ptypes = callee.params
        if len(es) != len(ptypes):
            self.fail("call of `%s` with %d arguments, %d expected" % (callee.qualname, len(es), len(ptypes)), node)
        argcodes = [atom(self.coerce(e, pt, node, ctx)) for e, pt in zip(es, ptypes)]
        if recv is not None:
            code = " ".join(["%s.%s" % (atom(recv[1].code), callee.name)] + argcodes)
        else:
            code = " ".join([lname(callee.name)] + argcodes)
        ret = callee.ret if callee.ret is not None else UNIT
        if callee.mutates:
            if not (isinstance(recv[0], ast.Name) and recv[0].id == "self"):
                self.fail("call of a method that mutates an object other than `self`", node)
            if getattr(ctx, "self_read_before_call", False):
                self.fail("`self` is read before a call that updates it in the same statement (evaluation order)", node)
            self.mutates = True
            if callee.ret is None:
                pat, val = "self", E("()", UNIT)
            else:
                t = self.fresh()
                pat, val = "(%s, self)" % t, E(t, ret)
            if callee.effect and not self.eff:
                raise NeedEffect()
            ctx.binds.append((pat, code, bool(callee.effect)))
            ctx.self_rebound = True
            return val
        if callee.effect:
            return self.bind_eff(ctx, code, ret)
        return E(code, ret)


# ------------------------------------------------------------------------------------------------
# translator: statements
# ------------------------------------------------------------------------------------------------

def terminates(stmts):
    """every path through `stmts` ends in return / raise / continue / break"""
    if not stmts:
        return False
    s = stmts[-1]
    if isinstance(s, (ast.Return, ast.Raise, ast.Continue, ast.Break)):
        return True
    if isinstance(s, ast.If):
        return terminates(s.body) and terminates(s.orelse)
    if isinstance(s, ast.With):
        return terminates(s.body)
    return False


def has_escape(stmts, loop_level=True):
    """a return anywhere inside, or a break / continue belonging to an enclosing loop"""
    for s in stmts:
        if isinstance(s, ast.Return):
            return True
        if isinstance(s, (ast.Break, ast.Continue)) and loop_level:
            return True
        if isinstance(s, ast.If) and (has_escape(s.body, loop_level) or has_escape(s.orelse, loop_level)):
            return True
        if isinstance(s, ast.With) and has_escape(s.body, loop_level):
            return True
        if isinstance(s, (ast.For, ast.While)) and has_escape(s.body, False):
            return True
        if isinstance(s, ast.Try):
            return True
    return False


def assigned_names(stmts):
    """local names (and `self`) assigned in the statements, in order of first assignment"""
    out = []

    def add(n):
        if n not in out:
            out.append(n)

    def target(t):
        if isinstance(t, ast.Name):
            add(t.id)
        elif isinstance(t, (ast.Tuple, ast.List)):
            for x in t.elts:
                target(x)
        elif isinstance(t, ast.Attribute):
            base = t
            while isinstance(base, ast.Attribute):
                base = base.value
            if isinstance(base, ast.Name):
                add(base.id)
        elif isinstance(t, ast.Subscript):
            if isinstance(t.value, ast.Name):
                add(t.value.id)

    class V(ast.NodeVisitor):
        def visit_Assign(self, n):
            self.generic_visit(n)
            for t in n.targets:
                target(t)

        def visit_AugAssign(self, n):
            self.generic_visit(n)
            target(n.target)

        def visit_For(self, n):
            target(n.target)
            self.generic_visit(n)

        def visit_Call(self, n):
            self.generic_visit(n)
            f = n.func
            if isinstance(f, ast.Name) and f.id == "next" and len(n.args) == 1 and isinstance(n.args[0], ast.Name):
                add(n.args[0].id)
            if isinstance(f, ast.Attribute) and isinstance(f.value, ast.Name):
                if f.attr in ("append", "seek"):
                    add(f.value.id)
                elif f.value.id == "self":
                    add("self")     # a method may update self

        def visit_Yield(self, n):
            self.generic_visit(n)
            add("__yield__")

    for s in stmts:
        V().visit(s)
    return out


def names_read(nodes):
    out = set()
    for n in nodes:
        for x in ast.walk(n):
            if isinstance(x, ast.Name):
                out.add(x.id)
            if isinstance(x, ast.Yield):
                out.add("__yield__")
    return out


def _target_names(t):
    if isinstance(t, ast.Name):
        return {t.id}
    if isinstance(t, (ast.Tuple, ast.List)):
        out = set()
        for x in t.elts:
            out |= _target_names(x)
        return out
    return set()


def upward_exposed(stmts, defined=frozenset()):
    """(names that may be read before they are assigned in `stmts`, names definitely assigned afterwards)"""
    exposed = set()
    defined = set(defined)

    def reads(node):
        return names_read([node]) if node is not None else set()

    for s in stmts:
        if isinstance(s, ast.Assign):
            exposed |= reads(s.value) - defined
            for t in s.targets:
                if not isinstance(t, (ast.Name, ast.Tuple, ast.List)):
                    exposed |= reads(t) - defined
            for t in s.targets:
                defined |= _target_names(t)
        elif isinstance(s, ast.AugAssign):
            exposed |= (reads(s.value) | reads(s.target)) - defined
        elif isinstance(s, ast.If):
            exposed |= reads(s.test) - defined
            e1, d1 = upward_exposed(s.body, defined)
            e2, d2 = upward_exposed(s.orelse, defined)
            exposed |= e1 | e2
            if terminates(s.body) and not terminates(s.orelse):
                defined = d2
            elif terminates(s.orelse) and not terminates(s.body):
                defined = d1
            else:
                defined = d1 & d2
        elif isinstance(s, ast.For):
            exposed |= reads(s.iter) - defined
            e, _ = upward_exposed(s.body, defined | _target_names(s.target))
            exposed |= e
        elif isinstance(s, ast.While):
            exposed |= reads(s.test) - defined
            e, _ = upward_exposed(s.body, defined)
            exposed |= e
        elif isinstance(s, ast.Try):
            e, _ = upward_exposed(s.body, defined)
            exposed |= e
            for h in s.handlers:
                e, _ = upward_exposed(h.body, defined)
                exposed |= e
        elif isinstance(s, ast.With):
            for item in s.items:
                exposed |= reads(item.context_expr) - defined
            e, d = upward_exposed(s.body, defined)
            exposed |= e
            defined = d
        else:
            exposed |= reads(s) - defined
    return exposed, defined


YIELD = "__yield__"


def _m(cls):
    """attach the functions below to Translator"""
    def deco(f):
        setattr(cls, f.__name__, f)
        return f
    return deco


@_m(Translator)
def block(self, stmts, env, k, after=()):
    """lines for `stmts` followed by the continuation `k(env)`; `after` = statements that run later
    (for liveness)"""
    if not stmts:
        return k(env)
    s, rest = stmts[0], stmts[1:]
    for pred, repl in self.cur.replace:
        if pred(s):
            new = ast.parse(repl).body
            for n in new:
                for sub in ast.walk(n):
                    ast.copy_location(sub, s)
            return self.block(list(new) + list(rest), env, k, after)
    ds = _desugar_self_container(s)
    if ds is not None:
        return self.block(ds + list(rest), env, k, after)
    m = getattr(self, "st_" + type(s).__name__, None)
    if m is None:
        self.fail("statement `%s` is outside the supported subset" % type(s).__name__, s)
    cont = lambda e: self.block(rest, e, k, after)
    nx = _iterator_next(s, env)
    if nx is not None:
        return self.st_next(s, nx[0], nx[1], env, cont)
    return m(s, env, cont, list(rest) + list(after))


def _desugar_self_container(s):
    """`self.a.append(x)` -> `self.a = self.a + [x]`;  `self.a[i] = v` -> `_a = self.a; _a[i] = v; self.a = _a`"""
    def is_self_attr(n):
        return isinstance(n, ast.Attribute) and isinstance(n.value, ast.Name) and n.value.id == "self"
    new = None
    if isinstance(s, ast.Expr) and isinstance(s.value, ast.Call) and isinstance(s.value.func, ast.Attribute) \
            and s.value.func.attr == "append" and is_self_attr(s.value.func.value) and len(s.value.args) == 1:
        a = ast.unparse(s.value.func.value)
        new = ast.parse("%s = %s + [%s]" % (a, a, ast.unparse(s.value.args[0]))).body
    elif isinstance(s, ast.Assign) and len(s.targets) == 1 and isinstance(s.targets[0], ast.Subscript) \
            and is_self_attr(s.targets[0].value):
        a = ast.unparse(s.targets[0].value)
        tmp = "_" + s.targets[0].value.attr
        new = ast.parse("%s = %s\n%s[%s] = %s\n%s = %s" % (tmp, a, tmp, ast.unparse(s.targets[0].slice),
                                                           ast.unparse(s.value), a, tmp)).body
    if new is not None:
        for n in new:
            for sub in ast.walk(n):
                ast.copy_location(sub, s)
    return new


def _iterator_next(s, env):
    """(iterator variable, target or None) when `s` is `next(it)` or `target = next(it)` for a local list `it`"""
    call, target = None, None
    if isinstance(s, ast.Expr) and isinstance(s.value, ast.Call):
        call = s.value
    elif isinstance(s, ast.Assign) and len(s.targets) == 1 and isinstance(s.value, ast.Call):
        call, target = s.value, s.targets[0]
    if call is not None and isinstance(call.func, ast.Name) and call.func.id == "next" and len(call.args) == 1 \
            and isinstance(call.args[0], ast.Name) and call.args[0].id in env.vars and not call.keywords:
        t = resolve(env.vars[call.args[0].id])
        if isinstance(t, tuple) and t[0] == "list":
            return call.args[0].id, target
    return None


@_m(Translator)
def st_next(self, s, it, target, env, cont):
    """`target = next(it)`: take the head of the remaining elements; an exhausted iterator raises StopIteration,
    which inside `try: … except StopIteration:` runs the handler"""
    ety = resolve(env.vars[it])[1]
    env2 = env.assign(it, env.vars[it])
    if target is None:
        pat = "_"
    else:
        pat, env2 = self.pattern(target, ety, env2, s)
    if self.stop_handlers:
        empty = self.stop_handlers[-1](env)
    else:
        if not self.eff:
            raise NeedEffect()
        empty = L('throw "StopIteration"')
    return L("match %s with" % lname(it)) + L("| [] =>") + ind(empty) + L("| %s :: %s =>" % (pat, lname(it))) + ind(cont(env2))


@_m(Translator)
def st_Try(self, s, env, cont, later):
    if len(s.handlers) != 1 or s.orelse or s.finalbody or not isinstance(s.handlers[0].type, ast.Name) \
            or s.handlers[0].name is not None:
        self.fail("`try` with several handlers, `else`, `finally` or `as`", s)
    h = s.handlers[0]
    if h.type.id != "StopIteration":
        return self.try_catch(s, h, env, cont, later)
    if not terminates(h.body):
        self.fail("the StopIteration handler must end in `return` or `raise`", s)
    for n in ast.walk(ast.Module(body=s.body, type_ignores=[])):
        if isinstance(n, ast.Call) and not (isinstance(n.func, ast.Name) and n.func.id == "next") and \
                isinstance(n.func, ast.Name) and n.func.id in self.targets:
            self.fail("call of a translated function inside `try … except StopIteration`", s)
    self.stop_handlers.append(lambda e: self.block(list(h.body), e, lambda e2: [], ()))
    try:
        return self.block(list(s.body), env, cont, later)
    finally:
        self.stop_handlers.pop()


CATCHABLE = ("KeyError", "IndexError", "ValueError", "AttributeError", "TypeError", "ZeroDivisionError")


@_m(Translator)
def try_catch(self, s, h, env, cont, later):
    """`try: body except E: handler` where neither part returns / breaks: both yield the variables they assign.
    Only the exact class `E` is caught (none of the exceptions raised by the supported operations is a
    subclass of another one in CATCHABLE)."""
    if h.type.id not in CATCHABLE:
        self.fail("`except %s`" % h.type.id, s)
    if has_escape(s.body, True) or has_escape(h.body, True):
        self.fail("`return` / `break` / `continue` inside `try … except %s`" % h.type.id, s)
    if not self.eff:
        raise NeedEffect()
    live = self.live_after(later)
    names = [n for n in assigned_names(s.body + h.body) if n in live or n == "self"]
    if "self" in names and not self._really_mutates(s):
        names.remove("self")
    names = [n for n in names if n in env.vars or (n in assigned_names(s.body) and (n in assigned_names(h.body) or terminates(h.body)))]
    state = {"types": None, "seen": {n: [] for n in names}}

    def join(e):
        for n in names:
            if n not in e.vars:
                self.fail("`%s` may be unbound after the `try`" % n, s)
        if state["types"] is None:
            for n in names:
                state["seen"][n].append(var_type(e, n))
            return L("?")
        codes = [self.lift(lname(_lean_var(n)), var_type(e, n), state["types"][n], s, n) for n in names]
        return L("pure " + atom(self.tuple_code(codes)))

    def attempt():
        return self.block(list(s.body), env, join, ()), self.block(list(h.body), env, join, ())
    c0 = self.counter
    attempt()
    state["types"] = {n: self.join_type(state["seen"][n], s, n) for n in names}
    self.counter = c0
    b_lines, h_lines = attempt()

    def paren_do(lines):
        out = L("(do") + ind(lines)
        i, t = out[-1]
        out[-1] = (i, t + ")")
        return out
    pat = self.state_tuple([_lean_var(n) for n in names]) if names else "_"
    env2 = env
    for n in names:
        env2 = env2.assign(n, state["types"][n])
    return L("let %s ← Py.tryCatch" % pat) + ind(paren_do(b_lines)) + ind(L('"%s"' % h.type.id)) + ind(paren_do(h_lines)) + cont(env2)


def contains_return(stmts):
    return any(isinstance(n, ast.Return) for st in stmts for n in ast.walk(st))


@_m(Translator)
def ret_propagate(self, v):
    """a `return` that happened inside an inner loop, seen from the statement after that loop"""
    if self.loop_depth > 0:
        return "pure (Py.Ctl.ret %s)" % atom(v)
    return "pure %s" % atom(v)


@_m(Translator)
def st_While(self, s, env, cont, later):
    if s.orelse:
        self.fail("`while … else`", s)
    if self.cur.while_fuel is None:
        self.fail("`while` loop in a function without a declared iteration bound", s)
    if not self.eff:
        raise NeedEffect()
    ctx = Ctx()
    fuel = self.ex(ast.parse(self.cur.while_fuel, mode="eval").body, env, ctx)
    if not unify(fuel.ty, INT):
        self.fail("the iteration bound is not an int", s)
    body = list(s.body)
    if not (isinstance(s.test, ast.Constant) and s.test.value is True):
        body = [ast.copy_location(ast.If(test=ast.UnaryOp(op=ast.Not(), operand=s.test), body=[ast.Break()], orelse=[]), s)] + body
        ast.fix_missing_locations(body[0])
    live = self.live_after(later) | upward_exposed(body)[0]
    names = [n for n in assigned_names(body) if n in env.vars and n in live]
    if "self" in names and not self._really_mutates(s):
        names.remove("self")
    st = self.state_tuple([_lean_var(n) for n in names])

    def exit_(kind, e):
        codes = [self.lift(lname(_lean_var(n)), var_type(e, n), var_type(env, n), s, n) for n in names]
        return L("pure (Py.Ctl.%s %s)" % (kind, atom(self.tuple_code(codes))))
    self.loop_exit.append(exit_)
    self.loop_bodies.append(body)
    self.live_stack.append(set(names))
    self.loop_kinds.append("ctl")
    self.loop_depth += 1
    try:
        lines = self.block(body, env, lambda e: exit_("next", e), ())
    finally:
        self.loop_depth -= 1
        self.loop_kinds.pop()
        self.live_stack.pop()
        self.loop_bodies.pop()
        self.loop_exit.pop()
    r = self.fresh()
    env2 = env
    for n in names:
        env2 = env2.assign(n, var_type(env, n))
    head = L("let %s ← Py.whileE (%s).toNat %s fun %s => do" % (r, fuel.code, st, st))
    tail = L("match %s with" % r) + L("| .returned v =>") + ind(L(self.ret_propagate("v"))) + \
        L("| .fell %s =>" % st) + ind(cont(env2))
    return self.emit_binds(ctx) + head + ind(lines, 4) + tail


@_m(Translator)
def pure_wrap(self, code):
    return ("pure " + atom(code)) if self.eff else code


@_m(Translator)
def emit_binds(self, ctx):
    out = []
    for b in ctx.binds:
        out += self.bind_lines(b)
    return out


@_m(Translator)
def let_value(self, pat, e, ctx, annot=None):
    """`let pat := e`, re-using the last hoisted binding when `e` is exactly its temporary"""
    if ctx.binds and isinstance(ctx.binds[-1][0], str) and re.fullmatch(r"t\d+", e.code) \
            and (ctx.binds[-1][0] == e.code or ctx.binds[-1][0].startswith(e.code + " : ")):
        old_pat, code, eff = ctx.binds.pop()
        if re.fullmatch(r"[\w«»']+", pat):
            pat = pat + old_pat[len(e.code):]
        return self.emit_binds(ctx) + self.bind_lines((pat, code, eff))
    if ctx.binds and re.fullmatch(r"t\d+", e.code) and ctx.binds[-1][0] == "(%s, self)" % e.code \
            and re.fullmatch(r"[\w«»']+", pat):
        _, code, eff = ctx.binds.pop()
        return self.emit_binds(ctx) + self.bind_lines(("(%s, self)" % pat, code, eff))
    ann = (" : " + annot) if annot else ""
    if not annot and resolve(e.ty) == INT and re.fullmatch(r"[\w«»']+", pat):
        ann = " : Int"
    return self.emit_binds(ctx) + L("let %s%s := %s" % (pat, ann, e.code))


@_m(Translator)
def after_ctx(self, env, ctx):
    """environment after the hoisted bindings of a statement: a method call that updated `self`
    invalidates what was known about its None-able attributes"""
    if getattr(ctx, "self_rebound", False):
        e = env.copy()
        for k in list(e.narrow):
            if k.startswith("self."):
                del e.narrow[k]
        return e
    return env


@_m(Translator)
def st_Pass(self, s, env, cont, later):
    return cont(env)


@_m(Translator)
def st_Expr(self, s, env, cont, later):
    v = s.value
    if isinstance(v, ast.Constant):
        return cont(env)      # docstring
    if isinstance(v, ast.Yield):
        if YIELD not in env.vars:
            self.fail("`yield` in a function that is not declared as a generator", s)
        ctx = Ctx()
        e = self.ex(v.value, env, ctx)
        if not unify(env.vars[YIELD], Lst(e.ty)):
            self.fail("yielded values of different types", s)
        return self.emit_binds(ctx) + L("let out := out ++ [%s]" % typed(e)) + cont(env)
    if isinstance(v, ast.Call):
        name = ast.unparse(v.func)
        if name.startswith(IGNORED_CALL_PREFIXES):
            return cont(env)
        if isinstance(v.func, ast.Attribute) and v.func.attr == "seek" and isinstance(v.func.value, ast.Name) \
                and v.func.value.id in env.vars and resolve(env.vars[v.func.value.id]) == FILEPOS:
            fvar = v.func.value.id
            ctx = Ctx()
            if len(v.args) == 1 and not v.keywords:
                pos = self.ex(v.args[0], env, ctx)
                code = pos.code
            elif len(v.args) == 2 and not v.keywords and ast.unparse(v.args[1]) == "os.SEEK_CUR":
                pos = self.ex(v.args[0], env, ctx)
                code = "%s + %s" % (lname(fvar), atom(pos.code))
            else:
                self.fail("`seek` with this whence", s)
            if not unify(pos.ty, INT):
                self.fail("`seek` to a non-int position", s)
            return self.emit_binds(ctx) + L("let %s : Int := %s" % (lname(fvar), code)) + cont(self.after_ctx(env, ctx).assign(fvar, FILEPOS))
        if isinstance(v.func, ast.Attribute) and v.func.attr == "append" and isinstance(v.func.value, ast.Name) \
                and len(v.args) == 1:
            xs = v.func.value.id
            if xs not in env.vars:
                self.fail("append to unknown list `%s`" % xs, s)
            ctx = Ctx()
            e = self.ex(v.args[0], env, ctx)
            if not unify(env.vars[xs], Lst(e.ty)):
                self.fail("append of a value of the wrong type", s)
            return self.emit_binds(ctx) + L("let %s := %s ++ [%s]" % (lname(xs), lname(xs), e.code)) + cont(env.assign(xs, env.vars[xs]))
        if isinstance(v.func, ast.Attribute) and isinstance(v.func.value, ast.Name) and v.func.value.id in env.vars \
                and v.func.value.id != "self":
            rt = resolve(env.vars[v.func.value.id])
            key = (rt[1], v.func.attr) if isinstance(rt, tuple) and rt[0] == "struct" else None
            ab = self.cur.abstract.get(key)
            if ab is not None and len(ab) > 3 and "updates_receiver" in ab[3]:
                # an untranslated method that updates its receiver: the parameter returns the updated object
                obj = v.func.value.id
                if obj not in env.fresh:
                    self.fail("`%s` updates `%s`, which may be shared with other references" % (ast.unparse(v), obj), s)
                ctx = Ctx()
                r = self.ex(v, env, ctx)
                env2 = self.after_ctx(env, ctx).assign(obj, env.vars[obj])
                env2.fresh.add(obj)
                return self.let_value(lname(obj), r, ctx) + cont(env2)
        ctx = Ctx()
        self.ex(v, env, ctx)
        # the value is dropped; bindings (effects, self updates) stay
        binds = []
        for (pat, code, eff) in ctx.binds:
            binds.append((pat, code, eff))
        if binds and re.fullmatch(r"t\d+", binds[-1][0]):
            binds[-1] = ("_", binds[-1][1], binds[-1][2])
        elif binds and re.fullmatch(r"\(t\d+, self\)", binds[-1][0]):
            binds[-1] = ("(_, self)", binds[-1][1], binds[-1][2])
        out = []
        for b in binds:
            out += self.bind_lines(b)
        return out + cont(self.after_ctx(env, ctx))
    self.fail("expression statement `%s`" % ast.unparse(s), s)


@_m(Translator)
def st_Assign(self, s, env, cont, later):
    if len(s.targets) != 1:
        self.fail("chained assignment", s)
    return self.assign_to(s.targets[0], s.value, env, cont, s)


@_m(Translator)
def st_AugAssign(self, s, env, cont, later):
    load = ast.fix_missing_locations(ast.copy_location(_as_load(s.target), s))
    value = ast.copy_location(ast.BinOp(left=load, op=s.op, right=s.value), s)
    return self.assign_to(s.target, value, env, cont, s)


def _as_load(t):
    t2 = ast.parse(ast.unparse(t), mode="eval").body
    return t2


@_m(Translator)
def assign_to(self, target, value, env, cont, s):
    ctx = Ctx()
    if isinstance(target, ast.Name):
        e = self.ex(value, env, ctx)
        n = target.id
        ty = e.ty
        annot = None
        if isinstance(resolve(ty), TVar) or _has_tvar(resolve(ty)):
            hint = self.hints.get((s.lineno, s.col_offset))
            if hint is not None:
                unify(ty, hint)
            self.pending_hints.append(((s.lineno, s.col_offset), ty))
            annot = LazyType(ty)
        lines = self.let_value(lname(n), e, ctx, annot)
        env2 = self.after_ctx(env, ctx).assign(n, ty)
        if getattr(e, "fresh", False):
            env2.fresh.add(n)
        return lines + cont(env2)
    if isinstance(target, ast.Tuple):
        e = self.ex(value, env, ctx)
        pat, env2 = self.pattern(target, e.ty, self.after_ctx(env, ctx), s)
        return self.let_value(pat, e, ctx) + cont(env2)
    if isinstance(target, ast.Attribute) and isinstance(target.value, ast.Name) and target.value.id == "self":
        e = self.ex(value, env, ctx)
        sty = resolve(env.vars["self"])
        fty = self.field_type(sty[1], target.attr, s)
        self.mutates = True
        env2 = self.after_ctx(env, ctx)
        for k in list(env2.narrow):
            if k == "self." + target.attr or k.startswith("self." + target.attr + "."):
                del env2.narrow[k]
        fr, et = resolve(fty), resolve(e.ty)
        if isinstance(fr, tuple) and fr[0] == "opt" and not (isinstance(et, tuple) and et[0] == "opt") and not isinstance(et, TVar):
            # a non-None value stored in a None-able attribute: later reads of the attribute see that value
            if not unify(fr[1], et):
                self.fail("type mismatch in `%s`" % ast.unparse(s), s)
            key = "self." + target.attr
            v = self.narrow_name(key, env, s)
            lines = self.let_value(v, e, ctx) + L("let self := { self with %s := some %s }" % (lname(target.attr), v))
            env2.narrow[key] = (v, et)
            return lines + cont(env2)
        code = self.coerce(e, fty, s)
        lines = self.emit_binds(ctx) + L("let self := { self with %s := %s }" % (lname(target.attr), code))
        return lines + cont(env2)
    if isinstance(target, ast.Attribute) and isinstance(target.value, ast.Name) and target.value.id in env.vars:
        v = target.value.id
        vt = resolve(env.vars[v])
        if not (isinstance(vt, tuple) and vt[0] == "struct"):
            self.fail("attribute assignment on a %s" % lean_type(vt), s)
        if v not in env.fresh:
            self.fail("attribute assignment on `%s`, which may be shared with other references (only objects made by "
                      "copy() / a constructor in this function may be updated)" % v, s)
        e = self.ex(value, env, ctx)
        code = self.coerce(e, self.field_type(vt[1], target.attr, s), s)
        env2 = self.after_ctx(env, ctx).assign(v, env.vars[v])
        env2.fresh.add(v)
        return self.emit_binds(ctx) + L("let %s := { %s with %s := %s }" % (lname(v), lname(v), lname(target.attr), code)) + cont(env2)
    if isinstance(target, ast.Subscript) and isinstance(target.value, ast.Name) and target.value.id in env.vars:
        d = target.value.id
        t = resolve(env.vars[d])
        kx = self.ex(target.slice, env, ctx)
        e = self.ex(value, env, ctx)
        if isinstance(t, tuple) and t[0] == "dict":
            if not (unify(t[1], kx.ty) and unify(t[2], e.ty)):
                self.fail("dict store of the wrong type", s)
            lines = self.emit_binds(ctx) + L("let %s := Py.Dict.set %s %s %s" % (lname(d), lname(d), atom(kx.code), atom(typed(e))))
            return lines + cont(env.assign(d, env.vars[d]))
        if isinstance(t, tuple) and t[0] == "list":
            if not (unify(INT, kx.ty) and unify(t[1], e.ty)):
                self.fail("list store of the wrong type", s)
            if not self.eff:
                raise NeedEffect()
            lines = self.emit_binds(ctx) + L("let %s ← Py.setItem %s %s %s" % (lname(d), lname(d), atom(kx.code), atom(typed(e))))
            return lines + cont(env.assign(d, env.vars[d]))
    self.fail("assignment target `%s`" % ast.unparse(target), s)


def _has_tvar(t):
    if isinstance(t, TVar):
        return True
    if isinstance(t, tuple):
        return any(_has_tvar(resolve(x)) for x in t[1:] if isinstance(x, (tuple, TVar))) or \
            (t[0] == "tuple" and any(_has_tvar(resolve(x)) for x in t[1]))
    return False


class LazyType:
    def __init__(self, ty):
        self.ty = ty

    def __str__(self):
        return lean_type(self.ty)

    def __radd__(self, other):
        return LazyStr([other, self])


class LazyStr:
    def __init__(self, parts):
        self.parts = parts

    def __add__(self, other):
        return LazyStr(self.parts + [other])

    def __radd__(self, other):
        return LazyStr([other] + self.parts)

    def __str__(self):
        return "".join(str(p) for p in self.parts)


@_m(Translator)
def ret_value(self, e, s):
    """code of the function result for `return e` (e = None for a bare return / falling off the end)"""
    t = self.cur
    if e is None:
        if t.ret is None:
            val = None
        elif isinstance(resolve(t.ret), tuple) and resolve(t.ret)[0] == "opt":
            val = "none"
        else:
            self.fail("the function may return None but its declared result is %s" % lean_type(t.ret), s)
    else:
        if t.ret is None:
            self.fail("`return <value>` in a function declared to return None", s)
        val = self.coerce(e, t.ret, s)
    if YIELD in self.fn_env_vars:
        if val is not None:
            self.fail("`return <value>` in a generator", s)
        val = "out"
    if self.mutates_flag:
        return "self" if val is None else "(%s, self)" % val
    return "()" if val is None else val


@_m(Translator)
def st_Return(self, s, env, cont, later):
    ctx = Ctx()
    e = self.ex(s.value, env, ctx) if s.value is not None else None
    if self.loop_depth > 0:
        if self.loop_kinds[-1] != "ctl":
            self.fail("internal: `return` inside a loop that was not translated with Py.Ctl", s)
        if not self.eff:
            raise NeedEffect()
        return self.emit_binds(ctx) + L("pure (Py.Ctl.ret %s)" % atom(self.ret_value(e, s)))
    return self.emit_binds(ctx) + L(self.pure_wrap(self.ret_value(e, s)))


@_m(Translator)
def st_Raise(self, s, env, cont, later):
    if s.exc is None:
        self.fail("bare `raise`", s)
    x = s.exc.func if isinstance(s.exc, ast.Call) else s.exc
    if not isinstance(x, ast.Name):
        self.fail("raise of `%s`" % ast.unparse(s.exc), s)
    if not self.eff:
        raise NeedEffect()
    return L('throw "%s"' % x.id)


@_m(Translator)
def st_Continue(self, s, env, cont, later):
    return self.loop_exit[-1]("next", env)


@_m(Translator)
def st_Break(self, s, env, cont, later):
    return self.loop_exit[-1]("brk", env)


@_m(Translator)
def st_With(self, s, env, cont, later):
    for item in s.items:
        c = item.context_expr
        if not (isinstance(c, ast.Call) and ast.unparse(c.func) in TRANSPARENT_WITH and item.optional_vars is None):
            self.fail("`with %s`" % ast.unparse(c), s)
    return self.block(list(s.body), env, cont, later)


@_m(Translator)
def live_after(self, later):
    """names that may be read after the current statement"""
    live = names_read(later)
    for names in self.live_stack:
        live |= names          # the running variables of the enclosing loops
    live |= set(self.always_live)
    return live


@_m(Translator)
def state_tuple(self, names):
    if not names:
        return "()"
    if len(names) == 1:
        return lname(names[0])
    return "(" + ", ".join(lname(n) for n in names) + ")"


def _lean_var(n):
    return "out" if n == YIELD else n


def var_type(e, n):
    return e.narrow[n][1] if n in e.narrow else e.vars[n]


@_m(Translator)
def join_type(self, ts, node, name):
    """the common type of a variable on several paths; `T` and `Option T` join to `Option T`"""
    ts = [resolve(t) for t in ts]
    opts = [t for t in ts if isinstance(t, tuple) and t[0] == "opt"]
    if opts:
        x = opts[0][1]
        for t in ts:
            inner = t[1] if (isinstance(t, tuple) and t[0] == "opt") else t
            if not unify(x, inner):
                self.fail("`%s` has incompatible types on different paths" % name, node)
        return Opt(x)
    for t in ts[1:]:
        if not unify(ts[0], t):
            self.fail("`%s` has incompatible types on different paths" % name, node)
    return ts[0]


@_m(Translator)
def lift(self, code, have, want, node, name):
    have, want = resolve(have), resolve(want)
    if isinstance(want, tuple) and want[0] == "opt" and not (isinstance(have, tuple) and have[0] == "opt") \
            and not isinstance(have, TVar):
        if not unify(want[1], have):
            self.fail("`%s` has incompatible types on different paths" % name, node)
        return "some " + atom(code)
    if not unify(want, have):
        self.fail("`%s` has incompatible types on different paths" % name, node)
    return code


@_m(Translator)
def tuple_code(self, codes):
    if not codes:
        return "()"
    if len(codes) == 1:
        return codes[0]
    return "(" + ", ".join(codes) + ")"


@_m(Translator)
def st_If(self, s, env, cont, later):
    ctx = Ctx()
    body_t, else_t = terminates(s.body), terminates(s.orelse)
    in_loop = self.loop_depth > 0
    simple = (not later) or body_t or else_t or has_escape(s.body, in_loop) or has_escape(s.orelse, in_loop)
    if simple:
        tree = self.cond_tree(s.test, env, ctx,
                              lambda e: self.block(list(s.body), e, cont, later),
                              lambda e: self.block(list(s.orelse), e, cont, later))
        return self.emit_binds(ctx) + self.render_tree(tree, lambda x: x, self.eff)
    # both branches fall through and something follows: the `if` yields the variables it assigns
    live = self.live_after(later)
    cand = [n for n in assigned_names(s.body + s.orelse) if n in live or n == "self"]
    both = set(assigned_names(s.body)) & set(assigned_names(s.orelse)) if s.orelse else set()
    names = [n for n in cand if n in env.vars or n in both]
    if "self" in names and not self._really_mutates(s):
        names = [n for n in names if n != "self"]
    state = {"types": None, "seen": {n: [] for n in names}}

    def join(e):
        for n in names:
            if n not in e.vars:
                self.fail("`%s` may be unbound after the `if`" % n, s)
        if state["types"] is None:
            for n in names:
                state["seen"][n].append(var_type(e, n))
            return L("?")
        codes = [self.lift(lname(_lean_var(n)), var_type(e, n), state["types"][n], s, n) for n in names]
        return L(self.pure_wrap(self.tuple_code(codes)))

    def attempt():
        c = Ctx()
        tree = self.cond_tree(s.test, env, c, lambda e: self.block(list(s.body), e, join, ()),
                              lambda e: self.block(list(s.orelse), e, join, ()))
        return c, self.render_tree(tree, lambda x: x, self.eff)

    def run():
        c0 = self.counter
        state["types"] = None
        state["seen"] = {n: [] for n in names}
        attempt()
        state["types"] = {n: self.join_type(state["seen"][n], s, n) for n in names}
        self.counter = c0
        return attempt()

    saved = (self.eff, self.counter, self.mutates)
    eff_used = False
    try:
        self.eff = False
        ctx, lines = run()
    except NeedEffect:
        self.eff = saved[0]
        self.counter = saved[1]
        if not self.eff:
            raise
        eff_used = True
        ctx, lines = run()
    finally:
        self.eff = saved[0]
    env2 = env
    for n in names:
        env2 = env2.assign(n, state["types"][n])
    if not names:
        if eff_used:
            head = L("let _ ←") + ind(lines)
        else:
            head = []    # nothing observable happens in the `if`
        return self.emit_binds(ctx) + head + cont(env2)
    pat = self.state_tuple([_lean_var(n) for n in names])
    if len(names) == 1 and not _has_tvar(resolve(state["types"][names[0]])):
        pat += " : " + lean_type(state["types"][names[0]])
    if len(lines) == 1:
        head = L("let %s %s %s" % (pat, "←" if eff_used else ":=", lines[0][1]))
    else:
        head = L("let %s %s" % (pat, "←" if eff_used else ":=")) + ind(lines)
    return self.emit_binds(ctx) + head + cont(env2)


@_m(Translator)
def _really_mutates(self, s):
    for n in ast.walk(s):
        if isinstance(n, (ast.Assign, ast.AugAssign)):
            ts = n.targets if isinstance(n, ast.Assign) else [n.target]
            for t in ts:
                if isinstance(t, ast.Attribute) and isinstance(t.value, ast.Name) and t.value.id == "self":
                    return True
        if isinstance(n, ast.Call) and isinstance(n.func, ast.Attribute) and isinstance(n.func.value, ast.Name) \
                and n.func.value.id == "self":
            sty = self.fn_self_struct
            callee = self.targets.get("%s.%s" % (sty, n.func.attr)) if sty else None
            if callee is not None and callee.mutates:
                return True
    return False


@_m(Translator)
def st_For(self, s, env, cont, later):
    if s.orelse:
        self.fail("`for … else`", s)
    ctx = Ctx()
    it_code, elt_ty = self.iterable(s.iter, env, ctx)
    pat, env_body0 = self.pattern(s.target, elt_ty, env, s)
    live = self.live_after(later) | upward_exposed(s.body, _target_names(s.target))[0]
    names = [n for n in assigned_names(s.body) if n in env.vars and (n in live)]
    if "self" in names and not self._really_mutates(s):
        names.remove("self")
    loop_targets = set(assigned_names([ast.Assign(targets=[s.target], value=ast.Constant(value=0))]))
    names = [n for n in names if n not in loop_targets]
    st = self.state_tuple([_lean_var(n) for n in names])
    ctl = contains_return(s.body)
    if ctl and not self.eff:
        raise NeedEffect()

    def body_lines():
        def exit_(kind, e):
            codes = [self.lift(lname(_lean_var(n)), var_type(e, n), var_type(env, n), s, n) for n in names]
            return L(self.pure_wrap("Py.%s.%s %s" % ("Ctl" if ctl else "Step", kind, atom(self.tuple_code(codes)))))
        self.loop_exit.append(exit_)
        self.loop_bodies.append(s.body)
        self.live_stack.append(set(names))
        self.loop_kinds.append("ctl" if ctl else "step")
        self.loop_depth += 1
        try:
            return self.block(list(s.body), env_body0, lambda e: exit_("next", e), ())
        finally:
            self.loop_depth -= 1
            self.loop_kinds.pop()
            self.live_stack.pop()
            self.loop_bodies.pop()
            self.loop_exit.pop()

    if ctl:
        lines = body_lines()
        r = self.fresh()
        env2 = env
        for n in names:
            env2 = env2.assign(n, var_type(env, n))
        head = L("let %s ← Py.forC %s %s fun %s %s => do" % (r, atom(it_code), st, pat, st))
        tail = L("match %s with" % r) + L("| .returned v =>") + ind(L(self.ret_propagate("v"))) + \
            L("| .fell %s =>" % st) + ind(cont(env2))
        return self.emit_binds(ctx) + head + ind(lines, 4) + tail

    saved = (self.eff, self.counter)
    eff_used = False
    try:
        self.eff = False
        lines = body_lines()
    except NeedEffect:
        self.eff = saved[0]
        self.counter = saved[1]
        if not self.eff:
            raise
        eff_used = True
        lines = body_lines()
    finally:
        self.eff = saved[0]
    if eff_used:
        head = L("let %s ← Py.forE %s %s fun %s %s => do" % (st, atom(it_code), st, pat, st))
    else:
        head = L("let %s := Py.forP %s %s fun %s %s =>" % (st, atom(it_code), st, pat, st))
    env2 = env
    for n in names:
        env2 = env2.assign(n, var_type(env, n))
    return self.emit_binds(ctx) + head + ind(lines, 4) + cont(env2)


# ------------------------------------------------------------------------------------------------
# functions and the file
# ------------------------------------------------------------------------------------------------

@_m(Translator)
def translate_function(self, target):
    import copy as _copy
    fn = _copy.deepcopy(self.src.find_function(target.file, target.qualname))
    if target.rewrite is not None:
        fn = ast.fix_missing_locations(target.rewrite().visit(fn))
    if target.region is not None:
        first_pred, last_pred, inputs, outputs = target.region
        idx = [i for i, st in enumerate(fn.body) if first_pred(st)]
        if len(idx) != 1:
            raise Untranslatable("start of the translated region not found (or ambiguous)", target.qualname, fn)
        jdx = [j for j, st in enumerate(fn.body) if j >= idx[0] and last_pred(st)]
        if not jdx:
            raise Untranslatable("end of the translated region not found", target.qualname, fn)
        region = fn.body[idx[0]:jdx[0] + 1]
        ret = ast.Return(value=ast.Tuple(elts=[ast.Name(id=n, ctx=ast.Load()) for n, _ in outputs], ctx=ast.Load())
                         if len(outputs) != 1 else ast.Name(id=outputs[0][0], ctx=ast.Load()))
        ast.copy_location(ret, region[-1])
        ast.fix_missing_locations(ret)
        fn.body = region + [ret]
        fn.args.args = [ast.arg(arg=n) for n, _ in inputs]
        target.params = [t for _, t in inputs]
        target.ret = Tup(*[t for _, t in outputs]) if len(outputs) != 1 else outputs[0][1]
        target.cls_saved, target.cls = target.cls, ""
    a = fn.args
    if a.vararg or a.kwarg or a.kwonlyargs or a.posonlyargs:
        raise Untranslatable("*args / **kwargs / keyword-only parameters", target.qualname, fn)
    pnames = [x.arg for x in a.args]
    is_method = bool(target.cls) and pnames and pnames[0] == "self"
    if is_method:
        pnames = pnames[1:]
    if len(pnames) != len(target.params):
        raise Untranslatable("the function has %d parameters, the signature table %d" % (len(pnames), len(target.params)),
                             target.qualname, fn)
    target.param_names = pnames
    is_gen = any(isinstance(n, (ast.Yield, ast.YieldFrom)) for n in ast.walk(fn))
    if is_gen and not getattr(target, "generator", False):
        raise Untranslatable("the function is a generator but is not declared as one", target.qualname, fn)
    self.cur = target
    self.fn_self_struct = target.cls if is_method else None
    eff, mut, hints = False, False, {}
    for attempt in range(6):
        self.eff, self.mutates_flag, self.mutates, self.hints = eff, mut, False, hints
        self.counter = 0
        self.used_abstract = set()
        self.pending_hints = []
        self.loop_exit, self.loop_bodies, self.loop_depth = [], [], 0
        self.loop_kinds, self.stop_handlers, self.live_stack = [], [], []
        self.always_live = set()
        env = Env()
        if is_method:
            env.vars["self"] = Struct(target.cls)
        for n, ty in zip(pnames, target.params):
            env.vars[n] = ty
        if is_gen:
            env.vars[YIELD] = Lst(target.ret_yield)
            self.always_live.add(YIELD)
        self.fn_env_vars = dict(env.vars)
        try:
            body = self.block(list(fn.body), env, lambda e: L(self.pure_wrap(self.ret_value(None, fn))), ())
        except NeedEffect:
            if eff:
                raise Untranslatable("internal: effect mode did not settle", target.qualname, fn)
            eff = True
            continue
        new_hints = {pos: resolve(ty) for pos, ty in self.pending_hints}
        if self.mutates and not mut:
            mut = True
            continue
        if new_hints != hints and attempt < 4:
            hints = new_hints
            continue
        break
    target.effect, target.mutates = eff, mut
    base = target.ret if target.ret is not None else UNIT
    if is_gen:
        base = Lst(target.ret_yield)
    if mut:
        rt = Struct(target.cls) if (target.ret is None and not is_gen) else Tup(base, Struct(target.cls))
    else:
        rt = base
    rts = lean_type(rt)
    if eff:
        rts = "Except Py.Exc " + lean_type(rt, False)
    params = []
    if target.type_params:
        params.append("{%s : Type}" % " ".join(target.type_params))
    seen_abs = []
    for key, (lean, ty, sel) in ((k, v[:3]) for k, v in target.abstract.items()):
        if lean not in seen_abs and lean in self.used_abstract:
            seen_abs.append(lean)
            params.append("(%s : %s)" % (lean, lean_type(ty)))
    if is_method:
        params.append("(self : %s)" % lean_type(Struct(target.cls)))
    for n, ty in zip(pnames, target.params):
        params.append("(%s : %s)" % (lname(n), lean_type(ty)))
    head = "def %s %s : %s :=%s" % (target.lean_name, " ".join(params), rts, " do" if eff else "")
    if is_gen:
        body = L("let out : %s := []" % lean_type(base)) + body
    text = ["/-- `%s` (%s) -/" % (target.qualname, target.file), head]
    for (i, t) in ind(body):
        text.append(" " * i + str(t))
    self.done[target.qualname] = "\n".join(text)
    return self.done[target.qualname]


_GEN_LOCK = threading.RLock()     # `generate2` swaps the module level table STRUCT_PARAMS: one generation at a time


def generate(repo_root=None, overrides=None, targets=None, strict=False):
    """the full text of lean/Tdms/Generated/Code.lean for the source tree at `repo_root`
    (`overrides`: {relative path: source text}, used by the self test)"""
    with _GEN_LOCK:
        return _generate(repo_root, overrides, targets, strict)


def _generate(repo_root=None, overrides=None, targets=None, strict=False):
    src = Source(repo_root or REPO_DEFAULT, overrides)
    import copy as _copy
    tgts = [_copy.copy(t) for t in (targets or TARGETS)]
    tr = Translator(src, tgts)
    defs = []
    for t in tgts:
        try:
            defs.append(tr.translate_function(t))
        except Untranslatable as ex:
            if strict:
                raise
            # The definition is left out: the `*_tied` theorem of this function then fails to build (unknown identifier), which
            # breaks the obligations of the properties that depend on this function and of no other property.
            name = getattr(t, "lean_name", None) or getattr(t, "name", None) or str(t)
            defs.append("/- UNTRANSLATABLE %s (line %s): %s -/" % (name, ex.lineno, str(ex.reason).replace("-/", "- /")))
    out = ["import Tdms.Generated.CodePrelude", "",
           "/-! GENERATED by harness/pyast2lean.py from the Python source of npTDMS — do not edit.",
           "Each definition is the translation of one Python function (shallow embedding, see the module",
           "docstring of the translator for the subset and `CodePrelude.lean` for the `Py.*` operations). -/",
           "",
           "set_option linter.unusedVariables false", "",
           "namespace Tdms.Generated.Code", "", "open Tdms.Generated", ""]
    used = _used_structs(tr)
    for name in STRUCT_ORDER:
        if name not in used:
            continue
        sp = STRUCT_PARAMS.get(name)
        out.append("structure %s%s where" % (name, (" (%s : Type)" % " ".join(sp)) if sp else ""))
        for f, ty in STRUCTS[name]:
            out.append("  %s : %s" % (lname(f), lean_type(ty)))
        out.append("")
    if tr.const_defs:
        out.append("/-! module level constants, from their defining expressions -/")
        for lean, (code, ty, origin) in tr.const_defs.items():
            out.append("/-- %s -/" % origin)
            out.append("def %s : %s := %s" % (lname(lean), lean_type(ty), code))
        out.append("")
    for d in defs:
        out.append(d)
        out.append("")
    out.append("end Tdms.Generated.Code")
    return "\n".join(out) + "\n"


def _used_structs(tr):
    used = set()

    def visit(t):
        t = resolve(t)
        if isinstance(t, tuple):
            if t[0] == "struct":
                if t[1] not in used:
                    used.add(t[1])
                    for _, ft in STRUCTS[t[1]]:
                        visit(ft)
            elif t[0] in ("opt", "list"):
                visit(t[1])
            elif t[0] == "tuple":
                for x in t[1]:
                    visit(x)
            elif t[0] == "dict":
                visit(t[1])
                visit(t[2])
            elif t[0] == "fn":
                for x in t[1]:
                    visit(x)
                visit(t[2])
    for t in tr.order:
        if t.cls:
            visit(Struct(t.cls)) if t.cls in STRUCTS else None
        for p in t.params:
            visit(p)
        if t.ret is not None:
            visit(t.ret)
        for _, v in t.abstract.items():
            visit(v[1])
    return used


# ================================================================================================
# PART 2 — `Code2.lean`: scaling (C13/C14), sensors (C17), writer (C07/C08), thermocouples (C18), handles (C20)
# ================================================================================================
#
# EXTENSIONS OF THE SUBSET (class `Translator2`; the 23 targets of part 1 are translated by `Translator`, unchanged)
#
#   values      a dynamically typed property value (Python / numpy int, float or str) -> `Py.Val R` ("dyn"); a float, or
#               ONE ELEMENT of a numpy float array (numpy arithmetic is elementwise) -> `R` ("num"), an arbitrary type with
#               exactly the operations the function uses (`[Add R] [Mul R] …` binders are generated); an object that may
#               be of one of several classes -> a generated `inductive` (UNIONS2 table), one constructor per class; a set
#               -> a list (only membership, `-`, `update`, `sorted` are supported on it); bytes -> the list of byte values
#   expressions float literals (the decimal number `repr` prints, as a quotient of naturals), `+ - * /` and unary minus on
#               floats / arrays / dyn values (dyn operands are converted by `Py.Val.toNum`: TypeError for a str),
#               `a & b` on bools, `a | b` on ints, `== !=` with a dyn operand (`Py.Val.eq`), `< <= > >=` on floats (a
#               None-able float compared raises TypeError), `k in d`, `d.keys()`, `s.endswith(t)`,
#               `"…%d…%s…" % args` with a literal format, `xs[v]` / `range(v)` with a dyn `v` (`Py.Val.toIndex`), `int(v)`
#               (`Py.Val.toIntConv`), `d[v]` on an int-keyed dict (`Py.Dict.getV`), `C(args)` for a class whose `__init__`
#               is translated (keyword arguments and constant defaults are resolved), `ObjectPath(…)` (CONSTRUCTORS2),
#               `C.static_method(args)`, `C.CONSTANT`, `module.object` (its name), a TdmsType class (its `enum_value`,
#               when the target says `types_as_enum`), `isinstance(x, C)` / `hasattr(x, 'a')` / `x.a` / `x.m(args)` /
#               `x.prop` for `x` of a union type (`match`; a missing attribute or method raises AttributeError, a method of
#               another arity TypeError; `isinstance` with a builtin / numpy class through the table ISINSTANCE2), reads
#               of a translated `@property`, `np.array(xs)` / `x.astype(…)` / `x.copy()` (identity), `np.reciprocal(x)`,
#               `np.zeros(len(x), …)`, `next(e for y in (f(x) for x in xs) if c)` on LAZY generators (`Py.firstE`),
#               `set(xs)`, `a - b` on sets, `dict(pairs)`, `xs + list(gen)`
#   statements  `g = (… for …)` (lazy: substituted where `g` is iterated), `try: … except E:` whose handler ends in
#               `continue` / `return` / `raise` (`Py.tryOpt`), `try: return … except E: return …` (`Py.tryCatch`),
#               `np.reciprocal(x, out=x)`, `xs.extend(it)`, `xs.sort(key=lambda …)` (`Py.sortByKeyE`, stable),
#               `self.a.update(x)` (set / dict), `__init__` (every `self.f = e` is a local `self_f`, the result is the
#               object; `init_partial`: attributes outside the signature table are dropped), self-recursive methods with
#               a `fuel` parameter (Python's recursion limit: "RecursionError"), `h.close()` in a `close_log` target
#               (the closed handle is appended to the list the definition returns), a test after a narrowing test that
#               can raise (`hasattr(o, 'data') and o.data_type != Void`) is evaluated inside that branch
#
# TRUSTED in part 2: `STRUCTS2` (field TYPES; the field names are checked against `__init__` where it is translated),
# `UNIONS2`, `ISINSTANCE2` (class hierarchy), `CONSTRUCTORS2`, `TARGETS2` (parameter types, `abstract` calls that become
# parameters, `locals` type annotations, `rewrite` / `region`, `types_as_enum`, `init_partial`, `close_log`), and the
# appended part of `CodePrelude.lean`.

DYN = ("dyn",)
NUM = ("num",)
LEAN_KEYWORDS |= {"prefix", "postfix", "infixl", "infixr", "open", "fuel", "id", "variable", "opaque", "noncomputable",
                  "termination_by", "decreasing_by", "omit", "include", "fun", "forall", "exists", "nofun", "suffices",
                  "obtain", "at", "from", "using", "show", "then", "else", "do", "where", "deriving"}


def Union(n):
    return ("union", n)


CLASS_ORDER = ["DecidableEq", "NatCast", "Neg", "Add", "Sub", "Mul", "Div", "Inv", "LT", "LE", "DecLT", "DecLE"]
CLASS_BINDER = {"DecLT": "[DecidableRel (α := R) (· < ·)]", "DecLE": "[DecidableRel (α := R) (· ≤ ·)]"}


def _kind(t):
    t = resolve(t)
    return t[0] if isinstance(t, tuple) else None


def _mentions(t, pred):
    t = resolve(t)
    if not isinstance(t, tuple):
        return False
    if pred(t):
        return True
    k = t[0]
    if k in ("opt", "list"):
        return _mentions(t[1], pred)
    if k == "tuple":
        return any(_mentions(x, pred) for x in t[1])
    if k == "dict":
        return _mentions(t[1], pred) or _mentions(t[2], pred)
    if k == "fn":
        return any(_mentions(x, pred) for x in t[1]) or _mentions(t[2], pred)
    return False


def _abstract_names(t, out):
    t = resolve(t)
    if not isinstance(t, tuple):
        return
    k = t[0]
    if k == "abstract":
        if t[1] not in out:
            out.append(t[1])
    elif k in ("struct", "union"):
        for p in STRUCT_PARAMS.get(t[1]) or ():
            if p != "R" and p not in out:
                out.append(p)
    elif k in ("opt", "list"):
        _abstract_names(t[1], out)
    elif k == "tuple":
        for x in t[1]:
            _abstract_names(x, out)
    elif k == "dict":
        _abstract_names(t[1], out)
        _abstract_names(t[2], out)
    elif k == "fn":
        for x in t[1]:
            _abstract_names(x, out)
        _abstract_names(t[2], out)


class Desugar2(ast.NodeTransformer):
    """`xs.extend(it)` -> `xs = xs + list(it)`;  `xs.sort(key=f)` -> `xs = __sorted_by__(xs, f)`;
    `self.a.update(x)` -> `self.a = __update__(self.a, x)` (set union / dict update)"""

    def visit_Expr(self, node):
        v = node.value
        if isinstance(v, ast.Call) and isinstance(v.func, ast.Attribute):
            recv, attr = v.func.value, v.func.attr
            new = None
            if attr == "extend" and isinstance(recv, ast.Name) and len(v.args) == 1 and not v.keywords:
                new = ast.Assign(targets=[ast.Name(id=recv.id, ctx=ast.Store())],
                                 value=ast.BinOp(left=ast.Name(id=recv.id, ctx=ast.Load()), op=ast.Add(),
                                                 right=ast.Call(func=ast.Name(id="list", ctx=ast.Load()), args=v.args, keywords=[])))
            elif attr == "sort" and isinstance(recv, ast.Name) and not v.args and len(v.keywords) == 1 \
                    and v.keywords[0].arg == "key":
                new = ast.Assign(targets=[ast.Name(id=recv.id, ctx=ast.Store())],
                                 value=ast.Call(func=ast.Name(id="__sorted_by__", ctx=ast.Load()),
                                                args=[ast.Name(id=recv.id, ctx=ast.Load()), v.keywords[0].value], keywords=[]))
            elif attr == "update" and isinstance(recv, ast.Attribute) and isinstance(recv.value, ast.Name) \
                    and recv.value.id == "self" and len(v.args) == 1 and not v.keywords:
                new = ast.Assign(targets=[ast.Attribute(value=ast.Name(id="self", ctx=ast.Load()), attr=recv.attr, ctx=ast.Store())],
                                 value=ast.Call(func=ast.Name(id="__update__", ctx=ast.Load()),
                                                args=[ast.Attribute(value=ast.Name(id="self", ctx=ast.Load()), attr=recv.attr,
                                                                    ctx=ast.Load()), v.args[0]], keywords=[]))
            if new is not None:
                return ast.copy_location(new, node)
        return node


# constructors with `*args` that are not translated: class -> (structure, fields filled by the positional arguments, the
# others are None).  TRUSTED: mirrors `ObjectPath.__init__(*path_components)` for up to two components.
CONSTRUCTORS2 = {"ObjectPath": ("ObjectPath", ["group", "channel"])}


class Target2(Target):
    """as `Target`, plus
    locals     : {local name: declared type} (a type annotation; the assigned value is coerced to it)
    rec_fuel   : the method calls itself: the definition gets a `fuel : Nat` parameter (structural recursion)
    is_property: read as an attribute (`@property`)
    """

    def __init__(self, *a, locals=None, rec_fuel=False, is_property=False, types_as_enum=False, **kw):
        super().__init__(*a, **kw)
        self.types_as_enum = types_as_enum     # TdmsType classes are identified with their `enum_value` (an int)
        self.close_log = False                 # `h.close()` statements are recorded: the definition returns the list of closed handles
        self.locals = locals or {}
        self.rec_fuel = rec_fuel
        self.is_property = is_property
        self.abs_params = []       # [(lean name, type)] abstract parameters of the generated definition, own and inherited
        self.needs_fuel = rec_fuel
        self.classes = set()
        self.is_init = self.name == "__init__"
        self.static = False
        self.defaults = []


class Translator2(Translator):
    def __init__(self, source, targets, structs, unions, struct_params):
        super().__init__(source, targets, structs)
        self.unions = unions
        self.struct_params = struct_params
        self.aux = {}          # lean name -> text of an auxiliary definition (attribute accessor / method dispatcher)
        self.aux_before = {}   # qualname of a target -> [aux names emitted in front of it]
        self.aux_info = {}     # lean name -> dict(abs_params, classes, effect)
        self.classes = set()

    # -- helpers -----------------------------------------------------------------------------------
    def need(self, *cls):
        self.classes.update(cls)

    def has_R(self, t):
        def pred(x):
            return x[0] in ("dyn", "num") or (x[0] in ("struct", "union") and "R" in (self.struct_params.get(x[1]) or ()))
        return _mentions(t, pred)

    def snapshot(self, ctx):
        return (self.counter, len(ctx.binds), set(self.classes))

    def rollback(self, ctx, snap):
        self.counter = snap[0]
        del ctx.binds[snap[1]:]
        self.classes = set(snap[2])

    def class_node(self, name, rel=None):
        for n in self.src.tree(rel or self.cur.file).body:
            if isinstance(n, ast.ClassDef) and n.name == name:
                return n
        return None

    def class_method(self, cls, name):
        c = self.class_node(cls)
        if c is None:
            return None
        for n in c.body:
            if isinstance(n, ast.FunctionDef) and n.name == name:
                return n
        return None

    def union_of(self, sname):
        return [u for u, ms in self.unions.items() if sname in ms]

    # -- coercions ---------------------------------------------------------------------------------
    def coerce(self, e, ty, node=None, ctx=None):
        ty_r, et = resolve(ty), resolve(e.ty)
        kt, ke = _kind(ty_r), _kind(et)
        if isinstance(et, TVar) or isinstance(ty_r, TVar):
            return super().coerce(e, ty, node, ctx)
        if kt == "dyn" and ke != "dyn":
            if et == INT:
                return "(Py.Val.int %s : Py.Val R)" % atom(typed(e))
            if et == NUM:
                return "(Py.Val.num %s : Py.Val R)" % atom(e.code)
            if ke == "list" and resolve(et[1]) == CHAR:
                return "(Py.Val.str %s : Py.Val R)" % atom(e.code)
            self.fail("a %s where a dynamically typed value is expected" % lean_type(et), node)
        if kt == "num" and ke == "dyn":
            if ctx is None:
                self.fail("a dynamically typed value used as a number in a position that cannot raise", node)
            self.need("NatCast", "Neg")
            return self.bind_eff(ctx, "Py.Val.toNum %s" % atom(e.code), NUM).code
        if kt == "num" and et == INT:
            self.need("NatCast", "Neg")
            return "(Py.Val.ofInt %s : R)" % atom(typed(e))
        if kt == "int" and ke == "dyn":
            if ctx is None:
                self.fail("a dynamically typed value used as an index in a position that cannot raise", node)
            return self.bind_eff(ctx, "Py.Val.toIndex %s" % atom(e.code), INT).code
        if kt == "union" and ke == "struct":
            if et[1] not in self.unions[ty_r[1]]:
                self.fail("class %s is not a member of the union %s" % (et[1], ty_r[1]), node)
            return "(%s.%s %s)" % (ty_r[1], et[1], atom(e.code))
        if kt == "opt" and ke != "opt":
            inner = self.coerce(e, ty_r[1], node, ctx)
            return "some " + atom(inner)
        return super().coerce(e, ty, node, ctx)

    def lift(self, code, have, want, node, name):
        h, w = resolve(have), resolve(want)
        if not isinstance(h, TVar) and not isinstance(w, TVar) and _kind(w) == "dyn" and _kind(h) != "dyn":
            return atom(self.coerce(E(code, h), w, node))
        return super().lift(code, have, want, node, name)

    def join_type(self, ts, node, name):
        rs = [resolve(t) for t in ts]
        if any(_kind(t) == "dyn" for t in rs) and all(
                _kind(t) == "dyn" or t == INT or t == NUM or (_kind(t) == "list" and resolve(t[1]) == CHAR) for t in rs):
            return DYN
        return super().join_type(ts, node, name)

    def as_num(self, e, ctx, node):
        t = resolve(e.ty)
        if t == NUM:
            return e
        return E(self.coerce(e, NUM, node, ctx), NUM)

    # -- expressions -------------------------------------------------------------------------------
    def ex_Constant(self, node, env, ctx):
        v = node.value
        if isinstance(v, bytes):
            return E("[" + ", ".join("(%d : Int)" % b for b in v) + "]", Lst(INT))      # a bytes object: its byte values
        if type(v) is float:
            from fractions import Fraction
            fr = Fraction(repr(v))
            if fr < 0:
                self.fail("negative float literal", node)
            self.need("NatCast")
            if fr.denominator == 1:
                return E("((%d : Nat) : R)" % fr.numerator, NUM)
            self.need("Div")
            return E("(((%d : Nat) : R) / ((%d : Nat) : R))" % (fr.numerator, fr.denominator), NUM)
        return super().ex_Constant(node, env, ctx)

    TYPES_FILE = "nptdms/types.py"

    def type_enum(self, name, node):
        """a TdmsType class (decorated `@tds_data_type(N, …)`) is identified with its `enum_value` N"""
        c = self.class_node(name, self.TYPES_FILE)
        if c is None:
            return None
        for d in c.decorator_list:
            if isinstance(d, ast.Call) and ast.unparse(d.func) == "tds_data_type" and d.args \
                    and isinstance(d.args[0], ast.Constant) and type(d.args[0].value) is int:
                lean = "%s.enum_value" % name
                if lean not in self.const_defs:
                    self.const_defs[lean] = (str(d.args[0].value), INT,
                                             "%s: `@tds_data_type(%s, …) class %s`" % (self.TYPES_FILE, ast.unparse(d.args[0]), name))
                return E(lean, INT)
        return None

    def ex_Name(self, node, env, ctx):
        n = node.id
        if n not in env.narrow and n not in env.vars and getattr(self.cur, "types_as_enum", False) \
                and n not in self.cur.abstract:
            e = self.type_enum(n, node)
            if e is not None:
                return e
        return super().ex_Name(node, env, ctx)

    def ex_UnaryOp(self, node, env, ctx):
        if isinstance(node.op, ast.USub):
            snap = self.snapshot(ctx)
            a = self.ex(node.operand, env, ctx)
            if _kind(a.ty) in ("num", "dyn"):
                a = self.as_num(a, ctx, node)
                self.need("Neg")
                return E("-" + atom(a.code), NUM)
            self.rollback(ctx, snap)
        return super().ex_UnaryOp(node, env, ctx)

    def str_format(self, node, env, ctx):
        fmt = node.left.value
        args = list(node.right.elts) if isinstance(node.right, ast.Tuple) else [node.right]
        parts = re.split(r"(%[ds%])", fmt)
        pieces = []
        for p in parts:
            if p in ("%d", "%s"):
                if not args:
                    self.fail("not enough arguments for the format string", node)
                a = self.ex(args.pop(0), env, ctx)
                if p == "%d":
                    if resolve(a.ty) != INT:
                        self.fail("`%d` of a value that is not an int by the signature table", node)
                    pieces.append("Py.fmtD %s" % atom(a.code))
                else:
                    if not unify(a.ty, Lst(CHAR)):
                        self.fail("`%s` of a value that is not a str by the signature table", node)
                    pieces.append(a.code)
            elif p == "%%":
                pieces.append("['%']")
            elif p:
                if "%" in p:
                    self.fail("format specification in %r" % fmt, node)
                pieces.append("[" + ", ".join(char_lit(c) for c in p) + "]")
        if args:
            self.fail("too many arguments for the format string", node)
        if not pieces:
            return E("[]", Lst(CHAR))
        return E(" ++ ".join(atom(p) for p in pieces), Lst(CHAR))

    def ex_BinOp(self, node, env, ctx):
        op = node.op
        if isinstance(op, ast.Mod) and isinstance(node.left, ast.Constant) and isinstance(node.left.value, str):
            return self.str_format(node, env, ctx)
        if isinstance(op, (ast.Add, ast.Sub, ast.Mult, ast.Div, ast.BitAnd, ast.BitOr)) and not (
                isinstance(op, ast.Mult) and isinstance(node.left, ast.List)):
            snap = self.snapshot(ctx)
            a = self.ex(node.left, env, ctx)
            if isinstance(op, ast.Add) and _kind(a.ty) == "list" and _kind(resolve(a.ty)[1]) == "tuple":
                self._expect_tuple = list(resolve(resolve(a.ty)[1])[1])
            try:
                b = self.ex(node.right, env, ctx)
            finally:
                self._expect_tuple = None
            ka, kb = _kind(a.ty), _kind(b.ty)
            if isinstance(op, ast.Add) and ka == "list" and kb == "list" and _kind(resolve(a.ty)[1]) == "tuple":
                if not unify(a.ty, b.ty):
                    self.fail("list concatenation of different types", node)
                return E("%s ++ %s" % (atom(a.code), atom(b.code)), a.ty)
            if isinstance(op, ast.Sub) and ka == "list" and kb == "list":
                if not unify(a.ty, b.ty):
                    self.fail("set difference of sets with different element types", node)
                return E("Py.setDiff %s %s" % (atom(a.code), atom(b.code)), a.ty)       # only sets support `-`
            if isinstance(op, ast.BitOr):
                if resolve(a.ty) == INT and resolve(b.ty) == INT:
                    return E("Py.bor %s %s" % (atom(a.code), atom(b.code)), INT)
                self.fail("operator BitOr on non-int operands in `%s`" % ast.unparse(node), node)
            if isinstance(op, ast.BitAnd) and resolve(a.ty) == BOOL and resolve(b.ty) == BOOL:
                return E("%s && %s" % (atom(a.code), atom(b.code)), BOOL,
                         "%s ∧ %s" % (atom(a.as_prop()), atom(b.as_prop())))
            if not isinstance(op, (ast.BitAnd, ast.BitOr)) and ("num" in (ka, kb) or "dyn" in (ka, kb)) \
                    and ka in ("num", "dyn", "int") and kb in ("num", "dyn", "int"):
                a, b = self.as_num(a, ctx, node), self.as_num(b, ctx, node)
                sym, cls = {ast.Add: ("+", "Add"), ast.Sub: ("-", "Sub"), ast.Mult: ("*", "Mul"),
                            ast.Div: ("/", "Div")}[type(op)]
                self.need(cls)
                return E("%s %s %s" % (atom(a.code), sym, atom(b.code)), NUM)
            self.rollback(ctx, snap)
        return super().ex_BinOp(node, env, ctx)

    _expect_tuple = None      # component types for the next tuple display (an element of a list of known type)

    def ex_Tuple(self, node, env, ctx):
        exp = self._expect_tuple
        if exp is not None and len(exp) == len(node.elts):
            self._expect_tuple = None
            es = [self.ex(x, env, ctx) for x in node.elts]
            codes = [self.coerce(e, t, node, ctx) for e, t in zip(es, exp)]
            return E("(" + ", ".join(codes) + ")", Tup(*exp))
        return super().ex_Tuple(node, env, ctx)

    def st_Expr(self, s, env, cont, later):
        v = s.value
        if isinstance(v, ast.Call) and isinstance(v.func, ast.Attribute) and v.func.attr == "append" \
                and isinstance(v.func.value, ast.Name) and len(v.args) == 1 and v.func.value.id in env.vars:
            xs = v.func.value.id
            t = resolve(env.vars[xs])
            if _kind(t) == "list" and _kind(t[1]) == "tuple" and isinstance(v.args[0], ast.Tuple):
                ctx = Ctx()
                self._expect_tuple = list(resolve(t[1])[1])
                try:
                    e = self.ex(v.args[0], env, ctx)
                finally:
                    self._expect_tuple = None
                return self.emit_binds(ctx) + L("let %s := %s ++ [%s]" % (lname(xs), lname(xs), e.code)) + \
                    cont(env.assign(xs, env.vars[xs]))
        return super().st_Expr(s, env, cont, later)

    def val_eq(self, a, b, node):
        self.need("DecidableEq", "NatCast", "Neg")
        return "Py.Val.eq %s %s" % (atom(self.coerce(a, DYN, node)), atom(self.coerce(b, DYN, node)))

    def ex_Compare(self, node, env, ctx):
        if len(node.ops) == 1 and self.none_test(node) is None:
            op, rn = node.ops[0], node.comparators[0]
            snap = self.snapshot(ctx)
            left = self.ex(node.left, env, ctx)
            kl = _kind(left.ty)
            if isinstance(op, (ast.In, ast.NotIn)):
                if isinstance(rn, (ast.Tuple, ast.List)):
                    if kl == "dyn":
                        alts = [self.ex(c, env, ctx) for c in rn.elts]
                        ps = ["%s = true" % atom(self.val_eq(left, c, node)) for c in alts]
                        p = " ∨ ".join(ps) or "False"
                        p = p if isinstance(op, ast.In) else "¬ (%s)" % p
                        return E("decide (%s)" % p, BOOL, p)
                else:
                    right = self.ex(rn, env, ctx)
                    rt = resolve(right.ty)
                    if _kind(rt) == "dict":
                        if not unify(rt[1], left.ty):
                            self.fail("`in`: key type", node)
                        c = "Py.Dict.contains %s %s" % (atom(right.code), atom(left.code))
                        if isinstance(op, ast.NotIn):
                            return E("!(%s)" % c, BOOL)
                        return E(c, BOOL)
                self.rollback(ctx, snap)
                return super().ex_Compare(node, env, ctx)
            right = self.ex(rn, env, ctx)
            iseq = isinstance(op, (ast.Eq, ast.NotEq))
            if not iseq:
                # `None` used as a number in an ordering comparison raises TypeError
                if _kind(left.ty) == "opt" and resolve(resolve(left.ty)[1]) == NUM:
                    left = self.bind_eff(ctx, "Py.notNone %s" % atom(left.code), NUM)
                    kl = "num"
                if _kind(right.ty) == "opt" and resolve(resolve(right.ty)[1]) == NUM:
                    right = self.bind_eff(ctx, "Py.notNone %s" % atom(right.code), NUM)
            kr = _kind(right.ty)
            if "dyn" in (kl, kr) and iseq:
                c = self.val_eq(left, right, node)
                if isinstance(op, ast.Eq):
                    return E(c, BOOL)
                return E("!(%s)" % c, BOOL)
            if "num" in (kl, kr) and kl in ("num", "int") and kr in ("num", "int"):
                a, b = self.as_num(left, ctx, node), self.as_num(right, ctx, node)
                sym = {ast.Eq: "=", ast.NotEq: "≠", ast.Lt: "<", ast.LtE: "≤", ast.Gt: ">", ast.GtE: "≥"}.get(type(op))
                if sym is None:
                    self.fail("comparison %s" % type(op).__name__, node)
                if sym in ("=", "≠"):
                    self.need("DecidableEq")
                elif sym in ("<", ">"):
                    self.need("LT", "DecLT")
                else:
                    self.need("LE", "DecLE")
                p = "%s %s %s" % (atom(a.code), sym, atom(b.code))
                return E("decide (%s)" % p, BOOL, p)
            need_eq = iseq and (self.has_R(left.ty) or self.has_R(right.ty))
            self.rollback(ctx, snap)
            if need_eq:
                self.need("DecidableEq")
        return super().ex_Compare(node, env, ctx)

    # `hasattr(x, 'a')` is the test `x.a is not None` on the Option-valued attribute accessor of a union
    def none_test(self, node):
        if isinstance(node, ast.Call) and isinstance(node.func, ast.Name) and node.func.id == "hasattr" \
                and len(node.args) == 2 and isinstance(node.args[1], ast.Constant) and isinstance(node.args[1].value, str) \
                and not node.keywords:
            probe = ast.copy_location(ast.Attribute(value=node.args[0], attr=node.args[1].value, ctx=ast.Load()), node)
            probe._probe = True
            return probe, False
        return super().none_test(node)

    def isinstance_members(self, node, env):
        """`isinstance(x, C)` for `x` of a union whose classes are RUNTIME classes related to `C` by the table
        ISINSTANCE2 (C may be a builtin / numpy class with several of them as subclasses): (x code, [members])"""
        if isinstance(node, ast.Call) and isinstance(node.func, ast.Name) and node.func.id == "isinstance" \
                and len(node.args) == 2 and isinstance(node.args[0], ast.Name) and not node.keywords:
            n = node.args[0].id
            t = resolve(env.narrow[n][1]) if n in env.narrow else (resolve(env.vars[n]) if n in env.vars else None)
            if t is not None and _kind(t) == "union":
                ms = ISINSTANCE2.get((t[1], ast.unparse(node.args[1])))
                if ms is not None:
                    return (env.narrow[n][0] if n in env.narrow else lname(n)), ms
        return None

    def isinstance_test(self, node, env):
        """(variable name, class name, scrutinee is Optional) for `isinstance(x, C)` with `x` a local of union type"""
        if self.isinstance_members(node, env) is not None:
            return None
        if isinstance(node, ast.Call) and isinstance(node.func, ast.Name) and node.func.id == "isinstance" \
                and len(node.args) == 2 and isinstance(node.args[0], ast.Name) and isinstance(node.args[1], ast.Name) \
                and not node.keywords:
            n = node.args[0].id
            if n in env.narrow:
                t = resolve(env.narrow[n][1])
            elif n in env.vars:
                t = resolve(env.vars[n])
            else:
                return None
            opt = False
            if _kind(t) == "opt":
                t, opt = resolve(t[1]), True
            if _kind(t) == "union" and node.args[1].id in self.unions[t[1]]:
                return n, node.args[1].id, opt, t[1]
        return None

    def has_none_test(self, node):
        for n in ast.walk(node):
            if self.none_test(n) is not None:
                return True
            if isinstance(n, ast.Call) and isinstance(n.func, ast.Name) and n.func.id == "isinstance" and len(n.args) == 2 \
                    and isinstance(n.args[1], ast.Name) and any(n.args[1].id in ms for ms in self.unions.values()):
                return True
        return False

    def cond_tree(self, test, env, ctx, on_true, on_false):
        it = self.isinstance_test(test, env)
        if it is not None:
            n, cls, opt, uname = it
            scrut = env.narrow[n][0] if n in env.narrow else lname(n)
            e_then = env.copy()
            e_then.narrow[n] = (lname(n), Struct(cls))
            pat = ".%s %s" % (cls, lname(n))
            if opt:
                pat = "some (%s)" % pat
            return ("matchcls", scrut, pat, on_true(e_then), on_false(env))
        plain = not (isinstance(test, ast.UnaryOp) and isinstance(test.op, ast.Not) and self.has_none_test(test.operand)) \
            and not (isinstance(test, ast.BoolOp) and self.has_none_test(test)) and self.none_test(test) is None
        if ctx is None and plain:
            # an operand after a None / hasattr / isinstance test that can raise: evaluated inside that branch
            sub = Ctx()
            c = self.truthy(self.ex(test, env, sub), test)
            node = ("if", c.as_prop(), on_true(env), on_false(env))
            if sub.binds:
                if any(b[2] for b in sub.binds) and not self.eff:
                    raise NeedEffect()
                return ("seq", list(sub.binds), node)
            return node
        return super().cond_tree(test, env, ctx, on_true, on_false)

    def render_tree(self, tree, leaf_lines, eff):
        if isinstance(tree, tuple) and tree[0] == "matchcls":
            _, scrut, pat, t_tree, f_tree = tree
            t_lines = self.peephole(self.render_tree(t_tree, leaf_lines, eff))
            f_lines = self.peephole(self.render_tree(f_tree, leaf_lines, eff))
            return L("match %s with" % scrut) + L("| %s =>" % pat) + ind(t_lines) + L("| _ =>") + ind(f_lines)
        if isinstance(tree, tuple) and tree[0] == "seq":
            out = []
            for b in tree[1]:
                out += self.bind_lines(b)
            return out + self.render_tree(tree[2], leaf_lines, eff)
        return super().render_tree(tree, leaf_lines, eff)

    # -- attributes --------------------------------------------------------------------------------
    def class_constant(self, cls, attr, node):
        c = self.class_node(cls)
        if c is None:
            return None
        for n in c.body:
            if isinstance(n, ast.Assign) and len(n.targets) == 1 and isinstance(n.targets[0], ast.Name) \
                    and n.targets[0].id == attr:
                lean = "%s.%s" % (cls, attr)
                if lean not in self.const_defs:
                    saved = (self.eff, self.counter)
                    self.eff = False
                    try:
                        cctx = Ctx()
                        e = self.ex(n.value, Env(), cctx)
                        if cctx.binds:
                            self.fail("class constant `%s` is not a constant expression" % lean, node)
                    except NeedEffect:
                        self.fail("class constant `%s` is not a constant expression" % lean, node)
                    finally:
                        self.eff, self.counter = saved
                    self.const_defs[lean] = (e.code, e.ty, "%s: `%s.%s = %s`" % (self.cur.file, cls, attr, ast.unparse(n.value)))
                return E(lean, self.const_defs[lean][1])
        return None

    def module_alias(self, name):
        """is `name` an imported module (`import a.b as name`)"""
        for n in self.src.tree(self.cur.file).body:
            if isinstance(n, ast.Import):
                for al in n.names:
                    if (al.asname or al.name.split(".")[0]) == name:
                        return al.name
        return None

    def union_attr(self, uname, attr, node):
        """the generated accessor `U.attr? : U → Option T` (`none`: the object's class has no such attribute)"""
        fty, have = None, []
        for m in self.unions[uname]:
            fs = dict(self.structs[m])
            if attr in fs:
                if fty is not None and resolve(fty) != resolve(fs[attr]):
                    self.fail("attribute `%s` has different types in the classes of %s" % (attr, uname), node)
                fty = fs[attr]
                have.append(m)
        if fty is None:
            self.fail("no class of the union %s has an attribute `%s` in the signature table" % (uname, attr), node)
        lean = "%s.%s?" % (uname, attr)
        if lean not in self.aux:
            up = self.struct_params.get(uname)
            binder = (" {%s : Type}" % " ".join(up)) if up else ""
            lines = ["/-- `x.%s` for `x` of one of the classes of `%s`; `none`: the class has no such attribute "
                     "(`hasattr` is false, reading it raises AttributeError) -/" % (attr, uname),
                     "def %s%s (x : %s) : Option %s :=" % (lean, binder, lean_type(Union(uname)), lean_type(fty, False)),
                     "  match x with"]
            for m in have:
                lines.append("  | .%s o => some o.%s" % (m, lname(attr)))
            if len(have) < len(self.unions[uname]):
                lines.append("  | _ => none")
            self.aux[lean] = "\n".join(lines)
            self.aux_info[lean] = dict(abs_params=[], classes=set(), effect=False)
        self.use_aux(lean)
        return lean, fty

    def use_aux(self, lean):
        lst = self.aux_before.setdefault(self.cur.qualname, [])
        if lean not in lst and not any(lean in v for v in self.aux_before.values()):
            lst.append(lean)

    def ex_Attribute(self, node, env, ctx):
        key = ast.unparse(node)
        if key in env.narrow:
            ln, ty = env.narrow[key]
            return E(ln, ty)
        if isinstance(node.value, ast.Name) and node.value.id not in env.vars and node.value.id not in env.narrow:
            c = self.class_constant(node.value.id, node.attr, node)
            if c is not None:
                return c
            if self.module_alias(node.value.id) is not None:
                # an object of another module is identified with its name
                e = E("[" + ", ".join(char_lit(ch) for ch in node.attr) + "]", Lst(CHAR))
                e.const_str = node.attr
                return e
        snap = self.snapshot(ctx)
        v = self.ex(node.value, env, ctx)
        t = resolve(v.ty)
        if _kind(t) == "union" and not any(node.attr in dict(self.structs[m]) for m in self.unions[t[1]]) \
                and not getattr(node, "_probe", False):
            # a @property of the classes of the union: dispatch like a method without arguments
            return self.call_dispatch(t[1], node.attr, v, [], env, ctx, node)
        if _kind(t) == "union":
            lean, fty = self.union_attr(t[1], node.attr, node)
            opt = E("%s %s" % (lean, atom(v.code)), Opt(fty))
            if getattr(node, "_probe", False):
                return opt
            return self.bind_eff(ctx, "Py.attr (%s)" % opt.code, fty)
        if getattr(node, "_probe", False):
            self.fail("`hasattr` on a value that is not of a union type", node)
        if t == INT and getattr(self.cur, "types_as_enum", False):
            if node.attr == "enum_value":
                return v
            if node.attr in self.cur.abstract.get(("type", node.attr), ()) or ("type", node.attr) in self.cur.abstract:
                return self.call_abstract(("type", node.attr), [], env, ctx, node, recv=v)
        if _kind(t) == "struct" and node.attr not in dict(self.structs[t[1]]):
            callee = self.targets.get("%s.%s" % (t[1], node.attr))
            if callee is not None and callee.is_property:
                return self.call_target(callee, (node.value, v), [], env, ctx, node)
        self.rollback(ctx, snap)
        return super().ex_Attribute(node, env, ctx)

    def ex_Subscript(self, node, env, ctx):
        key = ast.unparse(node)
        if key in env.narrow:
            ln, ty = env.narrow[key]
            return E(ln, ty)
        if not isinstance(node.slice, ast.Slice) and not (
                isinstance(node.value, ast.Name) and node.value.id not in env.vars and isinstance(node.slice, ast.Constant)):
            snap = self.snapshot(ctx)
            v = self.ex(node.value, env, ctx)
            t = resolve(v.ty)
            if _kind(t) in ("list", "dict"):
                i = self.ex(node.slice, env, ctx)
                if _kind(i.ty) == "dyn":
                    if _kind(t) == "list":
                        idx = self.coerce(i, INT, node, ctx)
                        return self.bind_eff(ctx, "Py.index %s %s" % (atom(v.code), atom(idx)), t[1])
                    if resolve(t[1]) == INT:
                        self.need("DecidableEq", "NatCast", "Neg")
                        return self.bind_eff(ctx, "Py.Dict.getV %s %s" % (atom(v.code), atom(i.code)), t[2])
            self.rollback(ctx, snap)
        return super().ex_Subscript(node, env, ctx)

    # -- comprehensions over lazy generators ---------------------------------------------------------
    def subst_lazy(self, node, env):
        """a local bound to a generator expression is replaced by that expression where it is iterated"""
        if isinstance(node, ast.Name) and node.id in getattr(env, "lazy", {}):
            return env.lazy[node.id]
        return node

    def iterable(self, node, env, ctx):
        node = self.subst_lazy(node, env)
        if isinstance(node, ast.Call) and isinstance(node.func, ast.Attribute) and node.func.attr == "keys" and not node.args:
            d = self.ex(node.func.value, env, ctx)
            t = resolve(d.ty)
            if _kind(t) == "dict":
                return "Py.Dict.keys %s" % atom(d.code), t[1]
        if isinstance(node, ast.GeneratorExp):
            # a nested generator is evaluated eagerly: only sound when its elements cannot raise
            saved = self.eff
            try:
                self.eff = False
                e = self.comp_list(node, env, ctx)
            except NeedEffect:
                self.eff = saved
                self.fail("iteration over a generator whose elements can raise (evaluation is lazy in Python)", node)
            finally:
                self.eff = saved
            return e.code, resolve(e.ty)[1]
        return super().iterable(node, env, ctx)

    def next_fused(self, gen, env, ctx, node):
        """`next(ELT for V in (E2 for P in XS) if COND)` with lazy evaluation -> `Py.firstE XS fun P => …`"""
        if len(gen.generators) != 1:
            self.fail("comprehension with more than one `for`", node)
        g = gen.generators[0]
        inner = self.subst_lazy(g.iter, env)
        if not (isinstance(inner, ast.GeneratorExp) and len(inner.generators) == 1 and not inner.generators[0].ifs):
            return None
        gi = inner.generators[0]
        xs_code, x_ty = self.iterable(gi.iter, env, ctx)
        pat, env_p = self.pattern(gi.target, x_ty, env, node)
        if not self.eff:
            raise NeedEffect()
        sub = Ctx()
        v = self.ex(inner.elt, env_p, sub)
        vpat, env_v = self.pattern(g.target, v.ty, env_p, node)
        lines = []
        for b in sub.binds[:-1] if (sub.binds and sub.binds[-1][0] == v.code) else sub.binds:
            lines += self.bind_lines(b)
        if sub.binds and sub.binds[-1][0] == v.code:
            lines += self.bind_lines((vpat, sub.binds[-1][1], sub.binds[-1][2]))
        else:
            lines += L("let %s := %s" % (vpat, v.code))
        res_ty = TVar()
        cond = g.ifs[0] if len(g.ifs) == 1 else (ast.BoolOp(op=ast.And(), values=list(g.ifs)) if g.ifs else ast.Constant(value=True))
        ast.copy_location(cond, node)
        ast.fix_missing_locations(cond)

        def hit(e, c):
            r = self.ex(gen.elt, e, c)
            if not unify(res_ty, r.ty):
                self.fail("`next`: element types differ", node)
            return E("some " + atom(typed(r)), Opt(res_ty))

        def miss(e, c):
            return E("none", Opt(res_ty))
        sub2 = Ctx()
        clines, _, ceff = self.cond_lines(cond, env_v, sub2, hit, miss, node)
        for b in sub2.binds:
            lines += self.bind_lines(b)
        if not ceff:
            if len(clines) == 1:
                clines = L("pure (%s)" % clines[0][1])
            else:
                clines = self.purify(clines)
        lines += clines
        t = self.fresh()
        ctx.binds.append((t, L("Py.firstE %s fun %s => do" % (atom(xs_code), pat)) + ind(lines, 4), True))
        return E(t, res_ty)

    def purify(self, lines):
        """wrap the leaves of a pure conditional in `pure`"""
        out = []
        for (i, tx) in lines:
            s = str(tx)
            if s.startswith(("if ", "else", "match ", "| ", "let ")):
                out.append((i, tx))
            else:
                out.append((i, "pure (%s)" % s))
        return out

    # -- calls -------------------------------------------------------------------------------------
    def ex_Call(self, node, env, ctx):
        fn = node.func
        fname = ast.unparse(fn)
        args = node.args
        if isinstance(fn, ast.Name) and fn.id not in env.vars:
            n = fn.id
            if (n + ".__init__") in self.targets and n not in self.cur.abstract:
                return self.call_target(self.targets[n + ".__init__"], None, args, env, ctx, node)
            if n in CONSTRUCTORS2 and not node.keywords:
                sname, fields = CONSTRUCTORS2[n]
                if len(args) > len(fields):
                    self.fail("constructor `%s` with %d arguments" % (n, len(args)), node)
                parts = []
                for i, f in enumerate(fields):
                    fty = self.field_type(sname, f, node)
                    if i < len(args):
                        parts.append("%s := %s" % (lname(f), self.coerce(self.ex(args[i], env, ctx), fty, node, ctx)))
                    else:
                        parts.append("%s := none" % lname(f))
                return E("{ " + ", ".join(parts) + " : %s }" % lean_type(Struct(sname)), Struct(sname))
            if n == "__sorted_by__" and len(args) == 2 and isinstance(args[1], ast.Lambda) and len(args[1].args.args) == 1:
                xs = self.ex(args[0], env, ctx)
                t = resolve(xs.ty)
                if _kind(t) != "list":
                    self.fail("`.sort` of a %s" % lean_type(t), node)
                pat, env2 = self.pattern(ast.Name(id=args[1].args.args[0].arg, ctx=ast.Store()), t[1], env, node)
                if not self.eff:
                    raise NeedEffect()

                def key(e, c):
                    k = self.ex(args[1].body, e, c)
                    return E(self.coerce(k, INT, node, c), INT)       # a key `None` cannot be compared: TypeError
                f, _, eff = self.lam(pat, env2, key)
                if not eff:
                    f = "fun %s => pure (%s)" % (pat, f[len("fun %s => " % pat):])
                return self.bind_eff(ctx, "Py.sortByKeyE %s (%s)" % (atom(xs.code), f), xs.ty)
            if n == "__update__" and len(args) == 2:
                a = self.ex(args[0], env, ctx)
                b = self.ex(args[1], env, ctx)
                if not unify(a.ty, b.ty):
                    self.fail("`.update` with a value of another type", node)
                if _kind(a.ty) == "list":
                    return E("Py.setUnion %s %s" % (atom(a.code), atom(b.code)), a.ty)
                if _kind(a.ty) == "dict":
                    return E("Py.Dict.update %s %s" % (atom(a.code), atom(b.code)), a.ty)
                self.fail("`.update` of a %s" % lean_type(a.ty), node)
            if n == "dict" and len(args) == 1 and isinstance(args[0], ast.GeneratorExp) and not node.keywords:
                v = self.comp_list(args[0], env, ctx)
                t = resolve(resolve(v.ty)[1])
                if not (_kind(t) == "tuple" and len(t[1]) == 2):
                    self.fail("`dict(...)` of something that is not a sequence of pairs", node)
                return E("Py.Dict.ofPairs %s" % atom(v.code), Dct(t[1][0], t[1][1]))
            if n == "__closed__" and len(args) == 1:
                e = self.ex(args[0], env, ctx)
                t = resolve(e.ty)
                if _kind(t) == "opt":
                    e = self.bind_eff(ctx, "Py.attr %s" % atom(e.code), t[1])      # `None.close()`: AttributeError
                    t = resolve(t[1])
                if t != self.cur.ret_yield:
                    self.fail("`.close()` on a value that is not a file handle by the signature table", node)
                return e
            if n == "__mk__":
                sname = self.cur.cls
                fields = self.structs[sname]
                parts = []
                for (f, fty), a in zip(fields, args):
                    e = self.ex(a, env, ctx)
                    parts.append("%s := %s" % (lname(f), self.coerce(e, fty, node, ctx)))
                return E("{ " + ", ".join(parts) + " : %s }" % lean_type(Struct(sname)), Struct(sname))
            if n == "int" and len(args) == 1 and not node.keywords:
                snap = self.snapshot(ctx)
                v = self.ex(args[0], env, ctx)
                if _kind(v.ty) == "dyn":
                    return self.bind_eff(ctx, "Py.Val.toIntConv %s" % atom(v.code), INT)
                self.rollback(ctx, snap)
            if n == "range" and len(args) == 1 and not node.keywords:
                snap = self.snapshot(ctx)
                v = self.ex(args[0], env, ctx)
                if _kind(v.ty) == "dyn":
                    return E("Py.range %s" % atom(self.coerce(v, INT, node, ctx)), Lst(INT))
                self.rollback(ctx, snap)
            if n == "hasattr":
                nt = self.none_test(node)
                if nt is not None:
                    o = self.ex(nt[0], env, ctx)
                    return E("%s.isSome" % atom(o.code), BOOL)
            if n == "isinstance" and len(args) == 2 and not node.keywords:
                im = self.isinstance_members(node, env)
                if im is not None:
                    scrut, ms = im
                    pats = " | ".join(".%s _" % m for m in ms)
                    return E("(match %s with | %s => true | _ => false)" % (scrut, pats), BOOL)
            if n == "isinstance" and len(args) == 2 and isinstance(args[1], ast.Name) and not node.keywords:
                it = self.isinstance_test(node, env)
                if it is not None:
                    nme, cls, opt, uname = it
                    scrut = env.narrow[nme][0] if nme in env.narrow else lname(nme)
                    pat = ".%s _" % cls
                    if opt:
                        pat = "some (%s)" % pat
                    return E("(match %s with | %s => true | _ => false)" % (scrut, pat), BOOL)
                snap = self.snapshot(ctx)
                v = self.ex(args[0], env, ctx)
                if resolve(v.ty) == INT and args[1].id == "int":
                    return E("true", BOOL, "True")
                self.rollback(ctx, snap)
            if n == "next" and len(args) == 1 and isinstance(args[0], ast.GeneratorExp) and not node.keywords:
                r = self.next_fused(args[0], env, ctx, node)
                if r is not None:
                    return r
            if n == "len" and len(args) == 1 and not node.keywords:
                snap = self.snapshot(ctx)
                v = self.ex(args[0], env, ctx)
                if _kind(v.ty) == "dyn":
                    self.fail("len() of a dynamically typed value", node)
                self.rollback(ctx, snap)
        if fname == "np.array" and len(args) == 1 and not node.keywords:
            return self.ex(args[0], env, ctx)        # a 1-d array is the list of its elements
        if fname == "np.reciprocal" and len(args) == 1 and not node.keywords:
            v = self.as_num(self.ex(args[0], env, ctx), ctx, node)
            self.need("Inv")
            return E("%s⁻¹" % atom(v.code), NUM)
        if fname == "np.zeros" and len(args) == 1 and isinstance(args[0], ast.Call) and ast.unparse(args[0].func) == "len" \
                and len(args[0].args) == 1:
            v = self.ex(args[0].args[0], env, ctx)
            if resolve(v.ty) == NUM:
                self.need("NatCast")
                return E("((0 : Nat) : R)", NUM)        # every element of `np.zeros(len(data))`
        if isinstance(fn, ast.Attribute):
            if fn.attr in ("astype", "copy") and fname not in self.cur.abstract:
                snap = self.snapshot(ctx)
                v = self.ex(fn.value, env, ctx)
                if resolve(v.ty) == NUM:
                    return v                             # dtype conversions / copies do not change the (exact) value
                self.rollback(ctx, snap)
            if fn.attr == "endswith" and len(args) == 1 and not node.keywords and fname not in self.cur.abstract:
                snap = self.snapshot(ctx)
                v = self.ex(fn.value, env, ctx)
                a = self.ex(args[0], env, ctx)
                if unify(v.ty, Lst(CHAR)) and unify(a.ty, Lst(CHAR)):
                    return E("Py.endsWith %s %s" % (atom(v.code), atom(a.code)), BOOL)
                self.rollback(ctx, snap)
            if fn.attr == "keys" and not args:
                code, kty = self.iterable(node, env, ctx)
                return E(code, Lst(kty))
            if fname in self.targets and isinstance(fn.value, ast.Name) and fn.value.id not in env.vars \
                    and fn.value.id not in env.narrow:
                if node.keywords:
                    self.fail("keyword arguments in `%s`" % ast.unparse(node), node)
                return self.call_target(self.targets[fname], None, args, env, ctx, node)
            if fname not in self.cur.abstract:
                snap = self.snapshot(ctx)
                read_before = ctx.self_read
                recv = self.ex(fn.value, env, ctx)
                t = resolve(recv.ty)
                if _kind(t) == "union":
                    if node.keywords:
                        self.fail("keyword arguments in `%s`" % ast.unparse(node), node)
                    return self.call_dispatch(t[1], fn.attr, recv, args, env, ctx, node)
                if _kind(t) == "abstract" and (t[1], fn.attr) in self.cur.abstract:
                    return self.call_abstract((t[1], fn.attr), args, env, ctx, node, recv=recv)
                if _kind(t) == "struct" and (t[1] + "." + fn.attr) in self.targets and (t[1], fn.attr) not in self.cur.abstract:
                    if node.keywords:
                        self.fail("keyword arguments in `%s`" % ast.unparse(node), node)
                    ctx.self_read_before_call = read_before
                    return self.call_target(self.targets[t[1] + "." + fn.attr], (fn.value, recv), args, env, ctx, node)
                self.rollback(ctx, snap)
        return super().ex_Call(node, env, ctx)

    def abs_args(self, params, node):
        """the abstract parameters a callee needs are parameters of the caller too (same name, same type)"""
        out = []
        for (lean, ty) in params:
            have = dict(self.inherited)
            own = {v[0]: v[1] for v in self.cur.abstract.values()}
            if lean in own:
                if lean_type(own[lean]) != lean_type(ty):
                    self.fail("abstract parameter `%s` has different types in caller and callee" % lean, node)
                self.used_abstract.add(lean)
            elif lean in have:
                if lean_type(have[lean]) != lean_type(ty):
                    self.fail("abstract parameter `%s` has different types in two callees" % lean, node)
            else:
                self.inherited.append((lean, ty))
            out.append(lean)
        return out

    def call_target(self, callee, recv, args, env, ctx, node):
        if not isinstance(callee, Target2):
            return super().call_target(callee, recv, args, env, ctx, node)
        if callee.effect is None:
            self.fail("call of `%s` before it is translated (order of TARGETS)" % callee.qualname, node)
        ptypes = callee.params
        args = list(args)
        kws = list(getattr(node, "keywords", None) or []) if isinstance(node, ast.Call) else []
        if kws or len(args) < len(ptypes):
            # keyword arguments and defaults (constants) of the callee
            names = callee.param_names
            dflt = dict(zip(names[len(names) - len(callee.defaults):], callee.defaults)) if callee.defaults else {}
            given = {k.arg: k.value for k in kws}
            if None in given or any(k not in names for k in given):
                self.fail("keyword arguments of `%s`" % ast.unparse(node), node)
            for nme in names[len(args):]:
                if nme in given:
                    args.append(given.pop(nme))
                elif nme in dflt:
                    args.append(dflt[nme])
                else:
                    self.fail("call of `%s`: parameter `%s` is missing" % (callee.qualname, nme), node)
            if given:
                self.fail("call of `%s`: parameter given twice" % callee.qualname, node)
        es = [self.ex(a, env, ctx) for a in args]
        if len(es) != len(ptypes):
            self.fail("call of `%s` with %d arguments, %d expected" % (callee.qualname, len(es), len(ptypes)), node)
        self.classes |= callee.classes
        lead = self.abs_args(callee.abs_params, node)
        if callee.needs_fuel:
            self.uses_fuel = True
            lead = ["fuel"] + lead
        argcodes = [atom(self.coerce(e, pt, node, ctx)) for e, pt in zip(es, ptypes)]
        if recv is not None and not callee.static:
            argcodes = [atom(recv[1].code)] + argcodes
        code = " ".join([callee.lean_name] + lead + argcodes)
        ret = callee.ret if callee.ret is not None else UNIT
        if callee.mutates:
            self.fail("call of a method that updates its object (not supported in part 2)", node)
        if callee.effect:
            return self.bind_eff(ctx, code, ret)
        return E(code, ret)

    def call_dispatch(self, uname, meth, recv, args, env, ctx, node):
        """`x.m(a1…an)` for `x` of a union type: a generated definition that matches on the class of `x`"""
        es = [self.ex(a, env, ctx) for a in args]
        n = len(es)
        lean = "%s_%s_%d" % (uname, meth, n)     # not in the namespace of the inductive: its constructors carry the class names
        if lean not in self.aux:
            arms, ptypes, ret, eff = [], None, None, False
            info = dict(abs_params=[], classes=set(), effect=True)
            rows = []
            for m in self.unions[uname]:
                fnode = self.class_method(m, meth)
                ab = self.cur.abstract.get((m, meth))
                callee = self.targets.get("%s.%s" % (m, meth))
                if fnode is None:
                    c = self.class_node(m)
                    if c is None or any(not (isinstance(b, ast.Name) and b.id == "object") for b in c.bases):
                        self.fail("class %s (method `%s`) not found, or it has base classes" % (m, meth), node)
                    rows.append((m, "raise", "AttributeError"))
                    continue
                arity = len(fnode.args.args) - 1
                if arity != n or fnode.args.vararg or fnode.args.defaults:
                    if fnode.args.vararg or fnode.args.defaults:
                        self.fail("method `%s.%s` has default / variadic parameters" % (m, meth), node)
                    rows.append((m, "raise", "TypeError"))
                    continue
                if ab is not None:
                    lean_f, fty = ab[0], ab[1]
                    pts, rt, ef = list(fty[1][1:]), fty[2], fty[3]
                    rows.append((m, "abstract", (lean_f, fty, ef)))
                elif callee is not None and isinstance(callee, Target2) and callee.effect is not None:
                    pts, rt = list(callee.params), callee.ret
                    rows.append((m, "target", callee))
                else:
                    self.fail("method `%s.%s` is neither translated nor declared abstract" % (m, meth), node)
                if ptypes is None:
                    ptypes, ret = pts, rt
                elif [lean_type(x) for x in ptypes] != [lean_type(x) for x in pts] or lean_type(ret) != lean_type(rt):
                    self.fail("method `%s` has different signatures in the classes of %s" % (meth, uname), node)
            if ptypes is None:
                self.fail("no class of %s has a method `%s` with %d parameters" % (uname, meth, n), node)
            anames = ["a%d" % (i + 1) for i in range(n)]
            for (m, kind, x) in rows:
                if kind == "raise":
                    arms.append('  | .%s _ => throw "%s"' % (m, x))
                elif kind == "abstract":
                    lean_f, fty, ef = x
                    if (lean_f, fty) not in info["abs_params"]:
                        info["abs_params"].append((lean_f, fty))
                    call = " ".join([lean_f, "o"] + anames)
                    arms.append("  | .%s o => %s" % (m, call if ef else "pure (%s)" % call))
                else:
                    for ap in x.abs_params:
                        if ap not in info["abs_params"]:
                            info["abs_params"].append(ap)
                    info["classes"] |= x.classes
                    if x.needs_fuel:
                        self.fail("dispatch to a recursive method", node)
                    call = " ".join([x.lean_name] + [a for a, _ in x.abs_params] + ["o"] + anames)
                    arms.append("  | .%s o => %s" % (m, call if x.effect else "pure (%s)" % call))
            binders = self.binders([Union(uname)] + ptypes + [ret] + [ty for _, ty in info["abs_params"]], info["classes"])
            params = binders + ["(%s : %s)" % (a, lean_type(ty)) for a, ty in info["abs_params"]] + \
                ["(x : %s)" % lean_type(Union(uname))] + ["(%s : %s)" % (a, lean_type(t)) for a, t in zip(anames, ptypes)]
            text = ["/-- dynamic dispatch of `x.%s(%s)` on the class of `x`: a class without the method raises "
                    "AttributeError, a class whose method takes another number of arguments TypeError -/" % (meth, ", ".join(anames)),
                    "def %s %s : Except Py.Exc %s :=" % (lean, " ".join(params), lean_type(ret, False)),
                    "  match x with"] + arms
            self.aux[lean] = "\n".join(text)
            info["ptypes"], info["ret"] = ptypes, ret
            self.aux_info[lean] = info
        self.use_aux(lean)
        info = self.aux_info[lean]
        self.classes |= info["classes"]
        lead = self.abs_args(info["abs_params"], node)
        argcodes = [atom(self.coerce(e, pt, node, ctx)) for e, pt in zip(es, info["ptypes"])]
        code = " ".join([lean] + lead + [atom(recv.code)] + argcodes)
        return self.bind_eff(ctx, code, info["ret"])

    def binders(self, types, classes):
        tps = []
        if any(self.has_R(t) for t in types) or classes:
            tps.append("R")
        for t in types:
            _abstract_names(t, tps)
        out = []
        if tps:
            out.append("{%s : Type}" % " ".join(tps))
        for c in CLASS_ORDER:
            if c in classes:
                out.append(CLASS_BINDER.get(c, "[%s R]" % c))
        return out

    # -- statements --------------------------------------------------------------------------------
    def block(self, stmts, env, k, after=()):
        if stmts:
            s = stmts[0]
            if isinstance(s, ast.Assign) and len(s.targets) == 1 and isinstance(s.targets[0], ast.Name) \
                    and isinstance(s.value, ast.GeneratorExp):
                # a generator is lazy: nothing happens here, the expression is substituted where it is iterated
                name = s.targets[0].id
                uses = [n for st in list(stmts[1:]) + list(after) for n in ast.walk(st)
                        if isinstance(n, ast.Name) and n.id == name]
                if len(uses) != 1:
                    self.fail("the generator `%s` must be iterated exactly once" % name, s)
                env2 = env.copy()
                env2.lazy = dict(env.lazy)
                env2.lazy[name] = s.value
                return self.block(stmts[1:], env2, k, after)
            if isinstance(s, ast.Expr) and isinstance(s.value, ast.Call) and ast.unparse(s.value.func) == "np.reciprocal" \
                    and len(s.value.args) == 1 and len(s.value.keywords) == 1 and s.value.keywords[0].arg == "out" \
                    and isinstance(s.value.args[0], ast.Name) and ast.unparse(s.value.keywords[0].value) == s.value.args[0].id:
                x = s.value.args[0].id
                new = ast.parse("%s = np.reciprocal(%s)" % (x, x)).body
                for n in new:
                    for sub in ast.walk(n):
                        ast.copy_location(sub, s)
                return self.block(list(new) + list(stmts[1:]), env, k, after)
        return super().block(stmts, env, k, after)

    @staticmethod
    def paren_do(lines):
        out = L("(do") + ind(lines)
        i, t = out[-1]
        out[-1] = (i, t + ")")
        return out

    def st_Try(self, s, env, cont, later):
        if len(s.handlers) == 1 and not s.orelse and not s.finalbody and isinstance(s.handlers[0].type, ast.Name) \
                and s.handlers[0].name is None:
            h = s.handlers[0]
            cls = h.type.id
            iter_next = any(isinstance(n, ast.Call) and isinstance(n.func, ast.Name) and n.func.id == "next"
                            and len(n.args) == 1 and isinstance(n.args[0], ast.Name) and n.args[0].id in env.vars
                            for st in s.body for n in ast.walk(st))
            if not iter_next and cls in CATCHABLE + ("StopIteration",):
                if terminates(s.body) and terminates(h.body) and not _loop_escape(s.body) and not _loop_escape(h.body):
                    if not self.eff:
                        raise NeedEffect()
                    b = self.block(list(s.body), env, lambda e: [], ())
                    hl = self.block(list(h.body), env, lambda e: [], ())
                    return L("Py.tryCatch") + ind(self.paren_do(b)) + ind(L('"%s"' % cls)) + ind(self.paren_do(hl))
                if terminates(h.body) and not has_escape(s.body, True):
                    return self.try_opt(s, h, env, cont, later)
        return super().st_Try(s, env, cont, later)

    def try_opt(self, s, h, env, cont, later):
        """`try: body except E: handler` where the handler leaves the block (`continue` / `return` / `raise` / `break`)"""
        if not self.eff:
            raise NeedEffect()
        live = self.live_after(later)
        names = [n for n in assigned_names(s.body) if n in live and n != "self"]
        got = {}

        def join(e):
            for n in names:
                if n not in e.vars:
                    self.fail("`%s` may be unbound after the `try`" % n, s)
            got["env"] = e
            return L("pure " + atom(self.tuple_code([lname(_lean_var(n)) for n in names])))
        b_lines = self.block(list(s.body), env, join, ())
        if "env" not in got:
            self.fail("the body of the `try` never falls through", s)
        env2 = env
        for n in names:
            env2 = env2.assign(n, var_type(got["env"], n))
        t = self.fresh()
        pat = self.state_tuple([_lean_var(n) for n in names]) if names else "_"
        h_lines = self.block(list(h.body), env, lambda e: [], ())
        return L("let %s ← Py.tryOpt" % t) + ind(self.paren_do(b_lines)) + ind(L('"%s"' % h.type.id)) + \
            L("match %s with" % t) + L("| none =>") + ind(h_lines) + L("| some %s =>" % pat) + ind(cont(env2))

    def assign_to(self, target, value, env, cont, s):
        if isinstance(target, ast.Name) and target.id in self.cur.locals:
            ctx = Ctx()
            e = self.ex(value, env, ctx)
            ty = self.cur.locals[target.id]
            code = self.coerce(e, ty, s, ctx)
            n = target.id
            return self.emit_binds(ctx) + L("let %s : %s := %s" % (lname(n), lean_type(ty), code)) + \
                cont(self.after_ctx(env, ctx).assign(n, ty))
        if isinstance(target, ast.Subscript) and isinstance(target.value, ast.Name) and target.value.id in env.vars \
                and _kind(env.vars[target.value.id]) == "list":
            d = target.value.id
            t = resolve(env.vars[d])
            ctx = Ctx()
            if not self.eff:
                raise NeedEffect()
            kx = self.ex(target.slice, env, ctx)
            e = self.ex(value, env, ctx)
            idx = self.coerce(kx, INT, s, ctx)
            v = self.coerce(e, t[1], s, ctx)
            lines = self.emit_binds(ctx) + L("let %s ← Py.setItem %s %s %s" % (lname(d), lname(d), atom(idx), atom(v)))
            return lines + cont(env.assign(d, env.vars[d]))
        return super().assign_to(target, value, env, cont, s)

    # -- functions ---------------------------------------------------------------------------------
    def translate_function(self, target):
        import copy as _copy
        fn = _copy.deepcopy(self.src.find_function(target.file, target.qualname))
        if target.rewrite is not None:
            fn = ast.fix_missing_locations(target.rewrite().visit(fn))
        fn = ast.fix_missing_locations(Desugar2().visit(fn))
        target.defaults = list(fn.args.defaults)
        self.cur = target
        if target.region is not None:
            first_pred, last_pred, inputs, outputs = target.region
            idx = [i for i, st in enumerate(fn.body) if first_pred(st)]
            if len(idx) != 1:
                raise Untranslatable("start of the translated region not found (or ambiguous)", target.qualname, fn)
            jdx = [j for j, st in enumerate(fn.body) if j >= idx[0] and last_pred(st)]
            if not jdx:
                raise Untranslatable("end of the translated region not found", target.qualname, fn)
            region = fn.body[idx[0]:jdx[0] + 1]
            if outputs:
                ret = ast.Return(value=ast.Tuple(elts=[ast.Name(id=n, ctx=ast.Load()) for n, _ in outputs], ctx=ast.Load())
                                 if len(outputs) != 1 else ast.Name(id=outputs[0][0], ctx=ast.Load()))
            else:
                ret = ast.Return(value=None)        # the region only updates `self`
            ast.copy_location(ret, region[-1])
            ast.fix_missing_locations(ret)
            fn.body = region + [ret]
            keep_self = any(isinstance(n, ast.Name) and n.id == "self" for st in region for n in ast.walk(st))
            fn.args.args = ([ast.arg(arg="self")] if keep_self and target.cls else []) + [ast.arg(arg=n) for n, _ in inputs]
            fn.args.defaults = []
            target.defaults = []
            target.params = [t for _, t in inputs]
            target.ret = (Tup(*[t for _, t in outputs]) if len(outputs) != 1 else outputs[0][1]) if outputs else None
        a = fn.args
        if a.vararg or a.kwarg or a.kwonlyargs or a.posonlyargs:
            raise Untranslatable("*args / **kwargs / keyword-only parameters", target.qualname, fn)
        if target.is_init:
            fields = [f for f, _ in self.structs[target.cls]]
            stored = []
            for n in ast.walk(fn):
                if isinstance(n, ast.Attribute) and isinstance(n.value, ast.Name) and n.value.id == "self" \
                        and isinstance(n.ctx, ast.Store) and n.attr not in stored:
                    stored.append(n.attr)
            if getattr(target, "init_partial", False) and set(fields) <= set(stored):
                # only the attributes of the signature table are kept: the other `self.x = e` statements are dropped
                class DropOthers(ast.NodeTransformer):
                    def visit_Assign(self, node):
                        t = node.targets[0] if len(node.targets) == 1 else None
                        if isinstance(t, ast.Attribute) and isinstance(t.value, ast.Name) and t.value.id == "self" \
                                and t.attr not in fields:
                            return ast.copy_location(ast.Pass(), node)
                        return node
                fn = ast.fix_missing_locations(DropOthers().visit(fn))
            elif sorted(stored) != sorted(fields):
                raise Untranslatable("`__init__` assigns the attributes %s, the signature table of %s has %s"
                                     % (sorted(stored), target.cls, sorted(fields)), target.qualname, fn)

            class InitSelf(ast.NodeTransformer):
                def visit_Attribute(self, node):
                    if isinstance(node.value, ast.Name) and node.value.id == "self":
                        return ast.copy_location(ast.Name(id="self_" + node.attr, ctx=node.ctx), node)
                    return self.generic_visit(node)
            fn = InitSelf().visit(fn)
            if any(isinstance(n, ast.Name) and n.id == "self" for st in fn.body for n in ast.walk(st)):
                raise Untranslatable("`self` is used other than through its attributes in `__init__`", target.qualname, fn)
            mk = ast.Return(value=ast.Call(func=ast.Name(id="__mk__", ctx=ast.Load()),
                                           args=[ast.Name(id="self_" + f, ctx=ast.Load()) for f in fields], keywords=[]))
            ast.copy_location(mk, fn.body[-1])
            fn.body.append(mk)
            ast.fix_missing_locations(fn)
            fn.args.args = fn.args.args[1:]
            fn.args.defaults = []
            target.ret = Struct(target.cls)
        pnames = [x.arg for x in a.args] if not target.is_init else [x.arg for x in fn.args.args]
        is_method = bool(target.cls) and bool(pnames) and pnames[0] == "self" and not target.is_init
        if is_method:
            pnames = pnames[1:]
        target.static = bool(target.cls) and not is_method
        if len(pnames) != len(target.params):
            raise Untranslatable("the function has %d parameters, the signature table %d" % (len(pnames), len(target.params)),
                                 target.qualname, fn)
        if "fuel" in pnames:
            raise Untranslatable("a parameter is called `fuel`", target.qualname, fn)
        target.param_names = pnames
        is_gen = any(isinstance(n, (ast.Yield, ast.YieldFrom)) for n in ast.walk(fn))
        if is_gen and not getattr(target, "generator", False):
            raise Untranslatable("the function is a generator but is not declared as one", target.qualname, fn)
        if target.close_log:
            # `h.close()` -> `yield __closed__(h)`: the closed handle is appended to the log the definition returns
            class CloseToYield(ast.NodeTransformer):
                def visit_Expr(self, node):
                    v = node.value
                    if isinstance(v, ast.Call) and isinstance(v.func, ast.Attribute) and v.func.attr == "close" \
                            and not v.args and not v.keywords:
                        call = ast.Call(func=ast.Name(id="__closed__", ctx=ast.Load()), args=[v.func.value], keywords=[])
                        return ast.copy_location(ast.Expr(value=ast.Yield(value=call)), node)
                    return node
            fn = ast.fix_missing_locations(CloseToYield().visit(fn))
            is_gen = True
        self.fn_self_struct = target.cls if is_method else None
        eff, mut, hints = False, False, {}
        if target.rec_fuel:
            eff = True
            target.effect, target.mutates = True, False
        prev_abs = None
        for attempt in range(8):
            self.eff, self.mutates_flag, self.mutates, self.hints = eff, mut, False, hints
            self.counter = 0
            self.used_abstract = set()
            self.pending_hints = []
            self.loop_exit, self.loop_bodies, self.loop_depth = [], [], 0
            self.loop_kinds, self.stop_handlers, self.live_stack = [], [], []
            self.always_live = set()
            self.classes = set()
            self.inherited = []
            self.uses_fuel = False
            self.aux_before[target.qualname] = []
            env = Env()
            if is_method:
                env.vars["self"] = Struct(target.cls)
            for n, ty in zip(pnames, target.params):
                env.vars[n] = ty
            if is_gen:
                env.vars[YIELD] = Lst(target.ret_yield)
                self.always_live.add(YIELD)
            self.fn_env_vars = dict(env.vars)
            try:
                body = self.block(list(fn.body), env, lambda e: L(self.pure_wrap(self.ret_value(None, fn))), ())
            except NeedEffect:
                if eff:
                    raise Untranslatable("internal: effect mode did not settle", target.qualname, fn)
                eff = True
                continue
            new_hints = {pos: resolve(ty) for pos, ty in self.pending_hints}
            if self.mutates and not mut:
                mut = True
                continue
            own = []
            for key, v in target.abstract.items():
                if v[0] in self.used_abstract and v[0] not in [x for x, _ in own]:
                    own.append((v[0], v[1]))
            abs_params = own + [p for p in self.inherited if p[0] not in [x for x, _ in own]]
            target.classes = set(self.classes)
            if target.rec_fuel and [x for x, _ in abs_params] != [x for x, _ in target.abs_params]:
                target.abs_params = abs_params
                continue
            target.abs_params = abs_params
            if new_hints != hints and attempt < 6:
                hints = new_hints
                continue
            break
        target.effect, target.mutates = eff, mut
        target.needs_fuel = target.rec_fuel or self.uses_fuel
        base = target.ret if target.ret is not None else UNIT
        if is_gen:
            base = Lst(target.ret_yield)
        if mut:
            base = Struct(target.cls) if (target.ret is None and not is_gen) else Tup(base, Struct(target.cls))
        rts = lean_type(base)
        if eff:
            rts = "Except Py.Exc " + lean_type(base, False)
        sig_types = list(target.params) + [base] + [ty for _, ty in target.abs_params] + \
            ([Struct(target.cls)] if is_method else [])
        params = self.binders(sig_types, target.classes)
        if target.needs_fuel:
            params.append("(fuel : Nat)")
        for lean, ty in target.abs_params:
            params.append("(%s : %s)" % (lean, lean_type(ty)))
        if is_method:
            params.append("(self : %s)" % lean_type(Struct(target.cls)))
        for n, ty in zip(pnames, target.params):
            params.append("(%s : %s)" % (lname(n), lean_type(ty)))
        if is_gen:
            body = L("let out : %s := []" % lean_type(Lst(target.ret_yield))) + body
        if target.rec_fuel:
            head = "def %s %s : %s :=" % (target.lean_name, " ".join(params), rts)
            body = L("match fuel with") + L('| 0 => throw "RecursionError"') + L("| fuel + 1 => do") + ind(body)
        else:
            head = "def %s %s : %s :=%s" % (target.lean_name, " ".join(params), rts, " do" if eff else "")
        text = ["/-- `%s` (%s) -/" % (target.qualname, target.file), head]
        for (i, t) in ind(body):
            text.append(" " * i + str(t))
        self.done[target.qualname] = "\n".join(text)
        return self.done[target.qualname]


def _loop_escape(stmts):
    """a `break` / `continue` that belongs to an enclosing loop"""
    for s in stmts:
        if isinstance(s, (ast.Break, ast.Continue)):
            return True
        if isinstance(s, ast.If) and (_loop_escape(s.body) or _loop_escape(s.orelse)):
            return True
        if isinstance(s, ast.With) and _loop_escape(s.body):
            return True
        if isinstance(s, ast.Try) and (_loop_escape(s.body) or any(_loop_escape(h.body) for h in s.handlers)):
            return True
    return False


# ---- comprehension filter `x is not None` on the loop variable: the elements are narrowed --------------------------
def _comp_filtered2(self, node, env, ctx):
    g = node.generators[0] if len(node.generators) == 1 else None
    if g is not None and len(g.ifs) == 1 and isinstance(g.target, ast.Name):
        nt = self.none_test(g.ifs[0])
        if nt is not None and not nt[1] and isinstance(nt[0], ast.Name) and nt[0].id == g.target.id:
            it_code, elt_ty = self.iterable(g.iter, env, ctx)
            et = resolve(elt_ty)
            if _kind(et) == "opt":
                pat, env2 = self.pattern(g.target, et[1], env, node)
                return "List.filterMap (fun %s => %s) %s" % (pat, pat, atom(it_code)), et[1], pat, env2
    return Translator.comp_filtered(self, node, env, ctx)


Translator2.comp_filtered = _comp_filtered2


# ------------------------------------------------------------------------------------------------
# TRUSTED TABLES of part 2
# ------------------------------------------------------------------------------------------------

SC = "nptdms/scaling.py"
TC = "nptdms/thermocouples.py"
PROPS = Dct(Lst(CHAR), DYN)
DT = Abstract("DT")

# attribute TYPES of the Python objects (the attribute NAMES of a class with a translated `__init__` are checked
# against the assignments `self.x = …` of that `__init__`)
STRUCTS2 = {
    "NoOpScaling": [("input_source", DYN)],
    "LinearScaling": [("intercept", DYN), ("slope", DYN), ("input_source", DYN)],
    "PolynomialScaling": [("coefficients", Lst(DYN)), ("input_source", DYN)],
    "RtdScaling": [("current_excitation", DYN), ("r0_nominal_resistance", DYN), ("a", DYN), ("b", DYN), ("c", DYN),
                   ("lead_wire_resistance", DYN), ("resistance_configuration", DYN), ("input_source", DYN)],
    "StrainScaling": [("configuration", DYN), ("poisson_ratio", DYN), ("gage_resistance", DYN),
                      ("lead_wire_resistance", DYN), ("initial_bridge_voltage", DYN), ("gage_factor", DYN),
                      ("gain_adjustment", DYN), ("voltage_excitation", DYN), ("input_source", DYN)],
    "TableScaling": [("input_values", Lst(DYN)), ("output_values", Lst(DYN)), ("input_source", DYN)],
    "ThermistorScaling": [("excitation_type", DYN), ("excitation_value", DYN), ("resistance_configuration", DYN),
                          ("r1_reference_resistance", DYN), ("lead_wire_resistance", DYN), ("a", DYN), ("b", DYN),
                          ("c", DYN), ("temperature_offset", DYN), ("input_source", DYN)],
    # `thermocouple` is one of the module level objects `thermocouples.type_b` …: identified with its name
    "ThermocoupleScaling": [("thermocouple", Lst(CHAR)), ("scaling_direction", DYN), ("input_source", DYN)],
    "AddScaling": [("left_input_source", DYN), ("right_input_source", DYN)],
    "SubtractScaling": [("left_input_source", DYN), ("right_input_source", DYN)],
    "DaqMxScalerScaling": [("scale_id", INT)],
    "MultiScaling": [("scalings", Lst(Opt(Union("Scaling"))))],
    # RawChannelDataChunk restricted to ONE element of its arrays (numpy arithmetic is elementwise)
    "RawChannelDataChunk": [("data", Opt(NUM)), ("scaler_data", Opt(Dct(INT, NUM)))],
    # a TdmsType class: only `.nptype` (a numpy dtype, opaque) is read
    "TdmsType": [("nptype", DT)],
    # thermocouples.py
    "Range": [("start", Opt(NUM)), ("end", Opt(NUM))],
    "Polynomial": [("applicable_range", Struct("Range")), ("_coefficients", Lst(NUM))],
}
WRF = "nptdms/writer.py"
TV = Abstract("TV")        # an INSTANCE of a TdmsType class: a typed value to be written
ITEM = Abstract("Item")    # one element of the data of a channel object (str / bytes / number)
WPROPS = Abstract("Props")
STRUCTS2.update({
    # common.ObjectPath
    "ObjectPath": [("group", Opt(Lst(CHAR))), ("channel", Opt(Lst(CHAR)))],
    # writer.RootObject / GroupObject / ChannelObject.  `ChannelObject.data_type` is a @property computed from the
    # data (numpy dtype lookup); here it is a field, and a TdmsType CLASS is identified with its `enum_value`.
    # The inherited `TdmsObject.data_type` (None) of root / group objects is not modelled (the translated code only
    # reads it behind `hasattr(obj, 'data')`).
    "RootObject": [("properties", Opt(WPROPS))],
    "GroupObject": [("group", Opt(Lst(CHAR))), ("properties", Opt(WPROPS))],
    "ChannelObject": [("group", Lst(CHAR)), ("channel", Lst(CHAR)), ("data", Lst(ITEM)), ("data_type", INT),
                      ("properties", Opt(WPROPS))],
    # writer.TdmsSegment
    "TdmsSegment": [("objects", Lst(Union("WObject"))), ("_tdms_version", INT), ("is_index_file", BOOL)],
})
# `_to_tdms_value`: a property value of one of these RUNTIME classes (`payload`: the value itself, opaque)
PAYLOAD = Abstract("Payload")
_PV_CLASSES = ["NpFloat64", "NpNumber", "TdmsTypeValue", "PyBool", "NpBool", "PyInt", "PyFloat", "PyDatetime",
               "NpDatetime64", "TdmsTimestampValue", "PyStr", "PyBytes", "OtherValue"]
STRUCTS2.update({c: [("payload", PAYLOAD)] for c in _PV_CLASSES})
# TRUSTED: which runtime classes are instances of the classes tested by `isinstance` (Python / numpy class hierarchy):
# `bool` is a subclass of `int`; `np.float64` is a subclass of `float` AND of `np.number`; numpy integers are not `int`
ISINSTANCE2 = {
    ("PyValue", "np.number"): ["NpFloat64", "NpNumber"],
    ("PyValue", "TdmsType"): ["TdmsTypeValue"],
    ("PyValue", "bool"): ["PyBool"],
    ("PyValue", "np.bool_"): ["NpBool"],
    ("PyValue", "int"): ["PyBool", "PyInt"],
    ("PyValue", "float"): ["NpFloat64", "PyFloat"],
    ("PyValue", "datetime"): ["PyDatetime"],
    ("PyValue", "np.datetime64"): ["NpDatetime64"],
    ("PyValue", "TdmsTimestamp"): ["TdmsTimestampValue"],
    ("PyValue", "str"): ["PyStr"],
    ("PyValue", "bytes"): ["PyBytes"],
}
HANDLE = Abstract("Handle")     # an open file object
_PATHSTR = Opt(Lst(CHAR))
STRUCTS2.update({
    # reader.TdmsReader / writer.TdmsWriter restricted to the attributes that decide which files are closed
    "TdmsReader": [("_file", Opt(HANDLE)), ("_index_file", Opt(HANDLE)), ("_file_path", _PATHSTR),
                   ("_index_file_path", _PATHSTR)],
    # `_groups_written` is a set of group names (an element is the `.group` of an ObjectPath: None-able),
    # `_channel_types` maps a channel path to its TdmsType class (= enum value)
    "TdmsWriter": [("_file", Opt(HANDLE)), ("_index_file", Opt(HANDLE)), ("_file_path", _PATHSTR),
                   ("_index_file_path", _PATHSTR), ("_file_mode", Lst(CHAR)), ("_tdms_version", INT),
                   ("_root_written", BOOL), ("_groups_written", Lst(Opt(Lst(CHAR)))),
                   ("_channel_types", Dct(Lst(CHAR), INT))],
})
UNIONS2 = {
    "PyValue": _PV_CLASSES,
    "WObject": ["RootObject", "GroupObject", "ChannelObject"],
    "Scaling": ["NoOpScaling", "LinearScaling", "PolynomialScaling", "RtdScaling", "StrainScaling", "TableScaling",
                "ThermistorScaling", "ThermocoupleScaling", "AddScaling", "SubtractScaling", "DaqMxScalerScaling"],
}
TYPE_ORDER2 = ["NoOpScaling", "LinearScaling", "PolynomialScaling", "RtdScaling", "StrainScaling", "TableScaling",
               "ThermistorScaling", "ThermocoupleScaling", "AddScaling", "SubtractScaling", "DaqMxScalerScaling",
               "Scaling", "MultiScaling", "RawChannelDataChunk", "TdmsType", "Range", "Polynomial",
               "ObjectPath", "RootObject", "GroupObject", "ChannelObject", "WObject", "TdmsSegment", "TdmsReader",
               "TdmsWriter"] + _PV_CLASSES + ["PyValue"]


class DiffPositive(ast.NodeTransformer):
    """`np.all(np.diff(x) > 0)` is a predicate of `x`: the parameter `strictly_increasing`"""

    def visit_Call(self, node):
        self.generic_visit(node)
        if ast.unparse(node.func) == "np.all" and len(node.args) == 1 and isinstance(node.args[0], ast.Compare) \
                and len(node.args[0].ops) == 1 and isinstance(node.args[0].ops[0], ast.Gt) \
                and ast.unparse(node.args[0].comparators[0]) == "0" and isinstance(node.args[0].left, ast.Call) \
                and ast.unparse(node.args[0].left.func) == "np.diff" and len(node.args[0].left.args) == 1:
            return ast.copy_location(ast.Call(func=ast.Name(id="_strictly_increasing", ctx=ast.Load()),
                                              args=[node.args[0].left.args[0]], keywords=[]), node)
        return node


class RegexIndex(ast.NodeTransformer):
    """`_scale_regex.match(key)` followed by `int(m.group(1))` on the matches: the parameter `scale_regex_index`
    (`key` -> the integer in the first group of the match, None when the key does not match); the regular expression
    itself is NOT translated"""

    def visit_Call(self, node):
        self.generic_visit(node)
        if ast.unparse(node.func) == "_scale_regex.match" and len(node.args) == 1 and not node.keywords:
            return ast.copy_location(ast.Call(func=ast.Name(id="_scale_regex_index", ctx=ast.Load()), args=node.args,
                                              keywords=[]), node)
        if isinstance(node.func, ast.Name) and node.func.id == "int" and len(node.args) == 1 \
                and isinstance(node.args[0], ast.Call) and isinstance(node.args[0].func, ast.Attribute) \
                and node.args[0].func.attr == "group" and ast.unparse(node.args[0].args[0]) == "1" \
                and isinstance(node.args[0].func.value, ast.Name):
            return node.args[0].func.value
        return node


def _sensor_scale(cls, lean):
    return {(cls, "scale"): (lean, Fn([Struct(cls), NUM], NUM, True), ["recv", 0])}


_SCALE_ABSTRACT = {}
_SCALE_ABSTRACT.update(_sensor_scale("RtdScaling", "rtd_scale"))
_SCALE_ABSTRACT.update(_sensor_scale("StrainScaling", "strain_scale"))
_SCALE_ABSTRACT.update(_sensor_scale("ThermistorScaling", "thermistor_scale"))
_SCALE_ABSTRACT.update(_sensor_scale("ThermocoupleScaling", "thermocouple_scale"))
_DTYPE_ABSTRACT = {"np.result_type": ("result_type", Fn([DT, DT], DT), [0, 1]),
                   "np.dtype": ("dtype", Fn([Lst(CHAR)], DT), [0])}
_SCALING = Lst(Opt(Union("Scaling")))
_RAW = Struct("RawChannelDataChunk")


def _init(cls, params, **kw):
    return Target2(SC, cls + ".__init__", params, **kw)


def _is_div_assign(name):
    return lambda st: _assigns(name)(st) and isinstance(st.value, ast.BinOp) and isinstance(st.value.op, ast.Div)


def _is_call_assign(name, fname):
    return lambda st: _assigns(name)(st) and isinstance(st.value, ast.Call) and ast.unparse(st.value.func) == fname


def _is_if_on(text):
    return lambda st: isinstance(st, ast.If) and ast.unparse(st.test) == text


class FromStringPath(ast.NodeTransformer):
    """`ObjectPath.from_string(o.path)` (the path string of an object, parsed back): the parameter `object_path`
    (the round trip through the path string is C16)"""

    def visit_Call(self, node):
        self.generic_visit(node)
        if ast.unparse(node.func) == "ObjectPath.from_string" and len(node.args) == 1 and not node.keywords \
                and isinstance(node.args[0], ast.Attribute) and node.args[0].attr == "path":
            return ast.copy_location(ast.Call(func=ast.Name(id="_object_path", ctx=ast.Load()),
                                              args=[node.args[0].value], keywords=[]), node)
        return node


_GROUPS = Lst(Opt(Lst(CHAR)))
# `GroupObject.path` / `ChannelObject.path` (`str(ObjectPath(...))`) are not translated
_PATH_ABSTRACT = {
    ("GroupObject", "path"): ("group_path", Fn([Struct("GroupObject")], Lst(CHAR)), ["recv"]),
    ("ChannelObject", "path"): ("channel_path", Fn([Struct("ChannelObject")], Lst(CHAR)), ["recv"]),
}
_WS_ABSTRACT = dict(_PATH_ABSTRACT)
_WS_ABSTRACT.update({
    "_object_path": ("object_path", Fn([Union("WObject")], Struct("ObjectPath")), [0]),
    "sorted": ("sorted_names", Fn([_GROUPS], _GROUPS), [0]),
})


class ToTdmsValueRewrite(ast.NodeTransformer):
    """`_to_tdms_value`: `numpy_data_types[value.dtype](value)` -> `_np_typed(value)`; `return value` (already a TdmsType
    / TdmsTimestamp) -> `return _as_tdms(value)`; `to_int_property_value(value)` -> `to_int_property_value(_as_int(value))`
    (`value` is of one of the runtime classes of the union PyValue; its content is opaque)"""

    def visit_Call(self, node):
        self.generic_visit(node)
        if isinstance(node.func, ast.Subscript) and ast.unparse(node.func) == "numpy_data_types[value.dtype]" \
                and len(node.args) == 1:
            return ast.copy_location(ast.Call(func=ast.Name(id="_np_typed", ctx=ast.Load()), args=node.args, keywords=[]), node)
        if ast.unparse(node.func) == "to_int_property_value" and len(node.args) == 1 and ast.unparse(node.args[0]) == "value":
            inner = ast.Call(func=ast.Name(id="_as_int", ctx=ast.Load()), args=node.args, keywords=[])
            return ast.copy_location(ast.Call(func=node.func, args=[inner], keywords=[]), node)
        return node

    def visit_Return(self, node):
        self.generic_visit(node)
        if isinstance(node.value, ast.Name) and node.value.id == "value":
            return ast.copy_location(ast.Return(value=ast.Call(func=ast.Name(id="_as_tdms", ctx=ast.Load()),
                                                               args=[node.value], keywords=[])), node)
        return node


class ReaderInitRewrite(ast.NodeTransformer):
    """`TdmsReader.__init__`: the argument is a file object or a path; what is done with it is abstracted:
    `hasattr(tdms_file, "read")` -> `_is_stream(tdms_file)`, `tdms_file.read(4)` -> `_read_tag(tdms_file)`,
    `tdms_file.seek(0, os.SEEK_SET)` dropped (the position of a stream is not modelled), `str(tdms_file)` ->
    `_path_str(tdms_file)`"""

    def visit_Call(self, node):
        self.generic_visit(node)
        f = ast.unparse(node.func)
        if f == "hasattr" and len(node.args) == 2 and ast.unparse(node.args[0]) == "tdms_file" \
                and ast.unparse(node.args[1]) in ("'read'", '"read"'):
            return ast.copy_location(ast.Call(func=ast.Name(id="_is_stream", ctx=ast.Load()), args=[node.args[0]], keywords=[]), node)
        if f == "tdms_file.read" and len(node.args) == 1 and ast.unparse(node.args[0]) == "4":
            return ast.copy_location(ast.Call(func=ast.Name(id="_read_tag", ctx=ast.Load()),
                                              args=[ast.Name(id="tdms_file", ctx=ast.Load())], keywords=[]), node)
        if f == "str" and len(node.args) == 1 and ast.unparse(node.args[0]) == "tdms_file":
            return ast.copy_location(ast.Call(func=ast.Name(id="_path_str", ctx=ast.Load()), args=node.args, keywords=[]), node)
        return node

    def visit_Expr(self, node):
        if ast.unparse(node.value) == "tdms_file.seek(0, os.SEEK_SET)":
            return ast.copy_location(ast.Pass(), node)
        return self.generic_visit(node)


def _init_partial(t):
    t.init_partial = True
    return t


def _closing(t):
    """the method closes file handles: every `h.close()` is recorded, the definition returns (closed handles, self)"""
    t.close_log = True
    t.generator = True
    t.ret_yield = HANDLE
    return t


_W_ABSTRACT = {
    "Uint32": ("mk_Uint32", Fn([INT], TV), [0]), "Uint64": ("mk_Uint64", Fn([INT], TV), [0]),
    "Int32": ("mk_Int32", Fn([INT], TV), [0]), "Bytes": ("mk_Bytes", Fn([Lst(INT)], TV), [0]),
    ("type", "size"): ("type_size", Fn([INT], INT), ["recv"]),
    ("Item", "encode"): ("encode", Fn([ITEM, Lst(CHAR)], ITEM, True), ["recv", 0]),
    ("len", "Item"): ("item_len", Fn([ITEM], INT), ["recv"]),
}

TARGETS2 = [
    # ---- C13 / C14: constructors, `from_properties`, elementwise `scale`
    _init("NoOpScaling", [DYN]),
    Target2(SC, "NoOpScaling.from_properties", [PROPS, INT, Lst(CHAR)], Struct("NoOpScaling")),
    Target2(SC, "NoOpScaling.scale", [NUM], NUM),
    _init("LinearScaling", [DYN, DYN, DYN]),
    Target2(SC, "LinearScaling.from_properties", [PROPS, INT], Struct("LinearScaling")),
    Target2(SC, "LinearScaling.scale", [NUM], NUM),
    _init("PolynomialScaling", [Lst(DYN), DYN]),
    Target2(SC, "PolynomialScaling.from_properties", [PROPS, INT], Struct("PolynomialScaling")),
    Target2(SC, "PolynomialScaling.scale", [NUM], NUM,
            abstract={"np.polynomial.polynomial.polyval": ("polyval", Fn([NUM, Lst(DYN)], NUM, True), [0, 1])}),
    _init("TableScaling", [Lst(DYN), Lst(DYN), DYN], rewrite=DiffPositive,
          abstract={"_strictly_increasing": ("strictly_increasing", Fn([Lst(DYN)], BOOL), [0]),
                    "np.flip": ("flip", Fn([Lst(DYN)], Lst(DYN)), [0])}),
    Target2(SC, "TableScaling.from_properties", [PROPS, INT], Struct("TableScaling")),
    Target2(SC, "TableScaling.scale", [NUM], NUM,
            abstract={"np.interp": ("interp", Fn([NUM, Lst(DYN), Lst(DYN)], NUM, True), [0, 1, 2])}),
    _init("AddScaling", [DYN, DYN]),
    Target2(SC, "AddScaling.from_properties", [PROPS, INT], Struct("AddScaling")),
    Target2(SC, "AddScaling.scale", [NUM, NUM], NUM),
    _init("SubtractScaling", [DYN, DYN]),
    Target2(SC, "SubtractScaling.from_properties", [PROPS, INT], Struct("SubtractScaling")),
    Target2(SC, "SubtractScaling.scale", [NUM, NUM], NUM),
    _init("DaqMxScalerScaling", [INT]),
    Target2(SC, "DaqMxScalerScaling.scale_daqmx", [Dct(INT, NUM)], NUM),
    _init("ThermocoupleScaling", [DYN, DYN, DYN]),
    Target2(SC, "ThermocoupleScaling.from_properties", [PROPS, INT], Struct("ThermocoupleScaling")),
    # ---- C17: sensor scalings
    Target2(SC, "_adjust_for_lead_resistance", [NUM, DYN, DYN, DYN], NUM),
    _init("RtdScaling", [DYN] * 8),
    Target2(SC, "RtdScaling.from_properties", [PROPS, INT], Struct("RtdScaling")),
    Target2(SC, "RtdScaling.scale", [], None, lean_name="RtdScaling.scale_resistance",
            region=(_is_div_assign("r_t"), _is_call_assign("r_t", "_adjust_for_lead_resistance"),
                    [("data", NUM)], [("r_t", NUM)])),
    _init("StrainScaling", [DYN] * 9),
    Target2(SC, "StrainScaling.from_properties", [PROPS, INT], Struct("StrainScaling")),
    Target2(SC, "StrainScaling.scale", [NUM], NUM),
    _init("ThermistorScaling", [DYN] * 10),
    Target2(SC, "ThermistorScaling.from_properties", [PROPS, INT], Struct("ThermistorScaling")),
    Target2(SC, "ThermistorScaling.scale", [], None, lean_name="ThermistorScaling.scale_resistance",
            region=(_is_if_on("self.excitation_type == CURRENT_EXCITATION"),
                    _is_call_assign("r_t", "_adjust_for_lead_resistance"), [("data", NUM)], [("r_t", NUM)])),
    # ---- C13 / C14: the scale graph
    _init("MultiScaling", [_SCALING]),
    Target2(SC, "MultiScaling._compute_scaled_data", [DYN, _RAW], NUM, rec_fuel=True, abstract=_SCALE_ABSTRACT),
    Target2(SC, "MultiScaling.scale", [_RAW], NUM),
    Target2(SC, "MultiScaling._compute_scale_dtype", [DYN, Struct("TdmsType"), Dct(INT, Struct("TdmsType"))], DT,
            rec_fuel=True, abstract=_DTYPE_ABSTRACT),
    Target2(SC, "MultiScaling.get_dtype", [Struct("TdmsType"), Dct(INT, Struct("TdmsType"))], DT),
    Target2(SC, "_get_number_of_scalings", [PROPS], Opt(INT), rewrite=RegexIndex,
            abstract={"_scale_regex_index": ("scale_regex_index", Fn([Lst(CHAR)], Opt(INT)), [0])}),
    Target2(SC, "_get_channel_scaling", [PROPS], Opt(Struct("MultiScaling")), locals={"scalings": _SCALING}),
    Target2(SC, "get_scaling", [PROPS, PROPS, PROPS], Opt(Struct("MultiScaling"))),
    # ---- C18: range of validity of a thermocouple polynomial
    Target2(TC, "Range.__init__", [Opt(NUM), Opt(NUM)]),
    Target2(TC, "Range.within_range", [NUM], BOOL),
    Target2(TC, "Polynomial.__init__", [Struct("Range"), Lst(NUM)]),
    Target2(TC, "Polynomial.within_range", [NUM], BOOL),
    Target2(TC, "_verify_contiguous", [Lst(Struct("Polynomial"))], None),
    # ---- C07 / C08: writer decisions
    Target2(WRF, "to_int_property_value", [INT], TV,
            abstract={"Uint64": ("mk_Uint64", Fn([INT], TV), [0]), "Int64": ("mk_Int64", Fn([INT], TV), [0]),
                      "Int32": ("mk_Int32", Fn([INT], TV), [0])}),
    Target2(WRF, "_infer_dtype", [Lst(INT)], Opt(DT), abstract={"np.dtype": ("dtype", Fn([Lst(CHAR)], DT), [0])}),
    Target2(WRF, "_to_tdms_value", [Union("PyValue")], TV, rewrite=ToTdmsValueRewrite,
            abstract={"_np_typed": ("np_typed", Fn([Union("PyValue")], TV), [0]),
                      "_as_tdms": ("as_tdms", Fn([Union("PyValue")], TV), [0]),
                      "_as_int": ("as_int", Fn([Union("PyValue")], INT), [0]),
                      "Boolean": ("mk_Boolean", Fn([Union("PyValue")], TV), [0]),
                      "DoubleFloat": ("mk_DoubleFloat", Fn([Union("PyValue")], TV), [0]),
                      "TimeStamp": ("mk_TimeStamp", Fn([Union("PyValue")], TV), [0]),
                      "String": ("mk_String", Fn([Union("PyValue")], TV), [0])}),
    Target2("nptdms/common.py", "ObjectPath.is_root", [], BOOL, is_property=True),
    Target2("nptdms/common.py", "ObjectPath.is_group", [], BOOL, is_property=True),
    Target2("nptdms/common.py", "ObjectPath.is_channel", [], BOOL, is_property=True),
    Target2(WRF, "_path_ordering_key", [Struct("ObjectPath")], Opt(INT)),
    Target2(WRF, "object_data_size", [INT, Lst(ITEM)], INT, types_as_enum=True, abstract=_W_ABSTRACT),
    Target2(WRF, "TdmsSegment.raw_data_index", [Union("WObject")], Lst(TV), types_as_enum=True, abstract=_W_ABSTRACT),
    Target2(WRF, "TdmsSegment._data_size", [], INT, types_as_enum=True, abstract=_W_ABSTRACT),
    Target2(WRF, "TdmsSegment.leadin", [Lst(Lst(CHAR)), INT], Lst(TV), types_as_enum=True, abstract=_W_ABSTRACT),
    # ---- C08: `TdmsWriter.write_segment` in three regions (the file writes between them are not translated)
    Target2(WRF, "RootObject.__init__", [Opt(WPROPS)]),
    Target2(WRF, "GroupObject.__init__", [Opt(Lst(CHAR)), Opt(WPROPS)]),
    Target2(WRF, "RootObject.path", [], Lst(CHAR), is_property=True),
    Target2(WRF, "TdmsSegment.__init__", [Lst(Union("WObject")), BOOL, INT], abstract=_PATH_ABSTRACT),
    Target2(WRF, "TdmsWriter.write_segment", [], None, lean_name="TdmsWriter.write_segment_objects",
            rewrite=FromStringPath, abstract=_WS_ABSTRACT,
            region=(lambda st: _assigns("path_object_pairs")(st) and isinstance(st.value, ast.ListComp),
                    _assigns("objects"), [("objects", Lst(Union("WObject")))],
                    [("objects", Lst(Union("WObject"))), ("groups_included", Lst(Opt(Lst(CHAR)))),
                     ("groups_to_add", Lst(Opt(Lst(CHAR))))])),
    Target2(WRF, "TdmsWriter.write_segment", [], None, lean_name="TdmsWriter.write_segment_types",
            types_as_enum=True, abstract=_WS_ABSTRACT,
            region=(_assigns("channel_types"),
                    lambda st: isinstance(st, ast.For) and "channel_types.items()" in ast.unparse(st.iter),
                    [("objects", Lst(Union("WObject")))], [("channel_types", Dct(Lst(CHAR), INT))])),
    Target2(WRF, "TdmsWriter.write_segment", [], None, lean_name="TdmsWriter.write_segment_state",
            region=(lambda st: ast.unparse(st) == "self._root_written = True",
                    lambda st: isinstance(st, ast.Assign) and ast.unparse(st.targets[0]) == "self._channel_types",
                    [("groups_included", Lst(Opt(Lst(CHAR)))), ("groups_to_add", Lst(Opt(Lst(CHAR)))),
                     ("channel_types", Dct(Lst(CHAR), INT))], [])),
    # ---- C20: which file handles are opened and closed
    _init_partial(Target2("nptdms/reader.py", "TdmsReader.__init__", [HANDLE], rewrite=ReaderInitRewrite,
                          abstract={"_is_stream": ("is_stream", Fn([HANDLE], BOOL), [0]),
                                    "_read_tag": ("read_tag", Fn([HANDLE], Lst(INT)), [0]),
                                    "_path_str": ("path_str", Fn([HANDLE], Lst(CHAR)), [0]),
                                    "os.path.isfile": ("isfile", Fn([Lst(CHAR)], BOOL), [0]),
                                    "open": ("open_file", Fn([Lst(CHAR), Lst(CHAR)], HANDLE), [0, 1])})),
    _closing(Target2("nptdms/reader.py", "TdmsReader.close", [], None)),
    Target2(WRF, "TdmsWriter.open", [], None,
            abstract={"open": ("open_file", Fn([Lst(CHAR), Lst(CHAR)], HANDLE), [0, 1])}),
    _closing(Target2(WRF, "TdmsWriter.close", [], None)),
]


def _struct_params2(structs, unions):
    """type parameters of the generated structures / inductives: `R` when a field is a float or a dynamically typed
    value, then the opaque types of its fields"""
    params = {n: [] for n in list(structs) + list(unions)}
    changed = True
    while changed:
        changed = False
        for n in params:
            ftypes = [t for _, t in structs[n]] if n in structs else [Struct(m) for m in unions[n]]
            new = list(params[n])

            def visit(t):
                t = resolve(t)
                if not isinstance(t, tuple):
                    return
                k = t[0]
                if k in ("dyn", "num"):
                    if "R" not in new:
                        new.insert(0, "R")
                elif k in ("struct", "union"):
                    for p in params.get(t[1], []):
                        if p not in new:
                            if p == "R":
                                new.insert(0, "R")
                            else:
                                new.append(p)
                elif k == "abstract":
                    if t[1] not in new:
                        new.append(t[1])
                elif k in ("opt", "list"):
                    visit(t[1])
                elif k == "tuple":
                    for x in t[1]:
                        visit(x)
                elif k == "dict":
                    visit(t[1])
                    visit(t[2])
            for t in ftypes:
                visit(t)
            if new != params[n]:
                params[n] = new
                changed = True
    return params


def generate2(repo_root=None, overrides=None, targets=None, strict=False):
    """the full text of lean/Tdms/Generated/Code2.lean"""
    with _GEN_LOCK:
        return _generate2(repo_root, overrides, targets, strict)


def _generate2(repo_root=None, overrides=None, targets=None, strict=False):
    global STRUCT_PARAMS
    src = Source(repo_root or REPO_DEFAULT, overrides)
    import copy as _copy
    tgts = [_copy.copy(t) for t in (targets or TARGETS2)]
    sp = _struct_params2(STRUCTS2, UNIONS2)
    saved = STRUCT_PARAMS
    STRUCT_PARAMS = sp
    try:
        tr = Translator2(src, tgts, STRUCTS2, UNIONS2, sp)
        defs = []
        for t in tgts:
            try:
                text = tr.translate_function(t)
                for a in tr.aux_before.get(t.qualname, []):
                    defs.append(tr.aux[a])
                defs.append(text)
            except Untranslatable as ex:
                if strict:
                    raise
                t.effect = None
                name = getattr(t, "lean_name", None) or str(t)
                defs.append("/- UNTRANSLATABLE %s (line %s): %s -/" % (name, ex.lineno, str(ex.reason).replace("-/", "- /")))
        out = ["import Tdms.Generated.CodePrelude", "",
               "/-! GENERATED by harness/pyast2lean.py (part 2) from the Python source of npTDMS — do not edit.",
               "Each definition is the translation of one Python function (shallow embedding, see the module",
               "docstring of the translator for the subset and `CodePrelude.lean` for the `Py.*` operations). -/",
               "",
               "set_option linter.unusedVariables false", "",
               "namespace Tdms.Generated.Code2", "", "open Tdms.Generated", ""]
        for name in TYPE_ORDER2:
            ps = sp.get(name)
            binder = (" (%s : Type)" % " ".join(ps)) if ps else ""
            if name in STRUCTS2:
                out.append("structure %s%s where" % (name, binder))
                for f, ty in STRUCTS2[name]:
                    out.append("  %s : %s" % (lname(f), lean_type(ty)))
            else:
                out.append("/-- an object of one of the classes %s -/" % ", ".join(UNIONS2[name]))
                out.append("inductive %s%s where" % (name, binder))
                for m in UNIONS2[name]:
                    out.append("  | %s (o : %s)" % (m, lean_type(Struct(m))))
            out.append("")
        if tr.const_defs:
            out.append("/-! module and class level constants, from their defining expressions -/")
            for lean, (code, ty, origin) in tr.const_defs.items():
                out.append("/-- %s -/" % origin)
                out.append("def %s : %s := %s" % (lean if "." in lean else lname(lean), lean_type(ty), code))
            out.append("")
        for d in defs:
            out.append(d)
            out.append("")
        out.append("end Tdms.Generated.Code2")
        return "\n".join(out) + "\n"
    finally:
        STRUCT_PARAMS = saved



if __name__ == "__main__":
    import sys
    try:
        sys.stdout.write(generate(sys.argv[1] if len(sys.argv) > 1 else None))
    except Untranslatable as ex:
        sys.stderr.write("Untranslatable: %s\n" % ex)
        sys.exit(2)
