#!/bin/sh
# usage: seed_it.sh mNN <seeded-id> <Cxx> [more checks...] ; leaves /tmp/mut/verify with the patch applied while checks run, then cleans it
m=$1; sid=$2; shift 2
/tmp/verify_mut.sh $m || exit 1
mkdir -p /verif/seeded/$sid
cp /tmp/mut/$m-work/out/patch.diff /tmp/mut/$m-work/out/demo.py /tmp/mut/$m-work/out/meta.json /verif/seeded/$sid/
[ -f /tmp/mut/$m-work/out/NOTES.md ] && cp /tmp/mut/$m-work/out/NOTES.md /verif/seeded/$sid/NOTES.md
cd /verif
for c in "$@"; do
  NPTDMS_REPO=/tmp/mut/verify ./check $c 2>/dev/null | grep -E "^(VIOLATION|OK|FAIL|  )" | head -3
done
rm -rf /verif/replay
git -C /tmp/mut/verify checkout -q -- .
/venv/bin/python /verif/harness/translate.py > /dev/null
