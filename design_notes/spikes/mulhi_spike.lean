-- schoolbook mulhi: floor(x*m / 2^64) via 32-bit limbs, all intermediate < 2^64
def mulhi (x m : Nat) : Nat :=
  let a := x / 2^32; let b := x % 2^32
  let c := m / 2^32; let d := m % 2^32
  let t := b * d
  let t2 := a * d + t / 2^32
  let t3 := b * c + t2 % 2^32
  a * c + t2 / 2^32 + t3 / 2^32

theorem mulhi_eq (x m : Nat) : mulhi x m = x * m / 2^64 := by
  unfold mulhi
  simp only []
  generalize hx1 : x / 2^32 = a
  generalize hx0 : x % 2^32 = b
  generalize hm1 : m / 2^32 = c
  generalize hm0 : m % 2^32 = d
  have hx : x = a * 2^32 + b := by omega
  have hm : m = c * 2^32 + d := by omega
  have hb : b < 2^32 := by omega
  have hd : d < 2^32 := by omega
  subst hx hm
  have e : (a * 2^32 + b) * (c * 2^32 + d) = a*c * 2^64 + (a*d + b*c) * 2^32 + b*d := by
    have : (2:Nat)^64 = 2^32 * 2^32 := by decide
    rw [this]; ring_nf
  sorry
