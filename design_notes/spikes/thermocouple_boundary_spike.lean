def horner (cs : List Rat) (x : Rat) : Rat := cs.foldr (fun c acc => c + x * acc) 0
def cB1 : List Rat := [0, -0.246508183460e-03, 0.590404211710e-05, -0.132579316360e-08, 0.156682919010e-11, -0.169445292400e-14, 0.629903470940e-18]
def cB2 : List Rat := [-0.389381686210e+01, 0.285717474700e-01, -0.848851047850e-04, 0.157852801640e-06, -0.168353448640e-09, 0.111097940130e-12, -0.445154310330e-16, 0.989756408210e-20, -0.937913302890e-24]
#eval (horner cB1 630.615 - horner cB2 630.615)
theorem contB : |horner cB1 630.615 - horner cB2 630.615| < 1/1000000 := by decide +kernel
#print axioms contB
