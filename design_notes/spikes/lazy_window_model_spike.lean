/-! Spike: layout-level model of TdmsReader.read_raw_data_for_channel (with the planned repairs). -/

structure Seg where
  c : Nat          -- number_values per chunk for this channel (0 = absent / no data)
  k : Nat          -- num_chunks of the segment
  f : Option Nat   -- final chunk length override for this channel (none = no override)
deriving Repr, DecidableEq

def Seg.chunkLen (s : Seg) (j : Nat) : Nat :=
  match s.f with
  | some n => if j + 1 = s.k then n else s.c
  | none => s.c

def Seg.nvals (s : Seg) : Nat :=
  if s.c = 0 then 0 else
  match s.f with
  | none => s.c * s.k
  | some n => s.c * (s.k - 1) + n

/-- abstract data: value = (segment index, chunk index, position) -/
abbrev V := Nat × Nat × Nat
def chunkData (si : Nat) (s : Seg) (j : Nat) : List V := (List.range (s.chunkLen j)).map fun p => (si, j, p)
def segData (si : Nat) (s : Seg) : List V :=
  if s.c = 0 then [] else ((List.range s.k).map (chunkData si s)).flatten
def allData (segs : List Seg) : List V := (segs.zipIdx.map fun (s, i) => segData i s).flatten

def searchRight (xs : List Nat) (x : Int) : Nat := (xs.takeWhile fun (y : Nat) => decide ((y : Int) ≤ x)).length
def searchLeft (xs : List Nat) (x : Int) : Nat := (xs.takeWhile fun (y : Nat) => decide ((y : Int) < x)).length
def cumsum : List Nat → Nat → List Nat
  | [], _ => []
  | x :: xs, acc => (acc + x) :: cumsum xs (acc + x)

/-- model of the generator; returns the list of yielded (trimmed) chunks -/
def readWindow (segs : List Seg) (offset : Int) (length : Option Int) : List (List V) := Id.run do
  let nv := segs.map Seg.nvals
  -- _build_index
  let first := match nv.findIdx? (· > 0) with | some i => i | none => segs.length
  let last := match (nv.zipIdx.filter (·.1 > 0)).getLast? with | some (_, i) => i | none => segs.length
  let offsets := cumsum ((nv.drop first).take (last + 1 - first)) 0
  let total : Int := (nv.foldl (· + ·) 0 : Nat)
  let maxLen := total - offset
  let len := match length with | none => maxLen | some l => min l maxLen
  let endIndex := offset + len
  let startSeg := first + searchRight offsets offset
  let endSeg := first + searchLeft offsets endIndex
  let mut out : List (List V) := []
  let mut valuesRead : Int := 0
  for si in [startSeg : endSeg + 1] do
    match segs[si]? with
    | none => pure ()
    | some s =>
      if s.c = 0 then continue
      let segStart : Int := if si = first then 0 else (offsets.getD (si - first - 1) 0 : Nat)
      let mut chunkOffset : Int := 0
      let mut numChunks : Int := s.k
      let mut rem : Int := 0
      if si = startSeg then
        let toSkip := offset - segStart
        chunkOffset := toSkip / s.c
        rem := toSkip % s.c
        numChunks := numChunks - chunkOffset
      if si = endSeg then
        let segEnd : Int := (offsets.getD (si - first) 0 : Nat)
        let mut toTrim := segEnd - endIndex
        let fcs : Int := match s.f with | none => s.c | some n => n
        if toTrim ≥ fcs then
          numChunks := numChunks - 1
          toTrim := toTrim - fcs
        numChunks := numChunks - toTrim / s.c
      let mut i := 0
      for j in [chunkOffset.toNat : (chunkOffset + numChunks).toNat] do
        let ch := chunkData si s j
        let skip : Int := if i = 0 then rem else 0
        valuesRead := valuesRead + ch.length - skip
        let trim : Int := if valuesRead < len then 0 else valuesRead - len
        -- python slice data[skip : len(data) - trim] with possibly negative stop
        let stop : Int := ch.length - trim
        let stop' : Nat := if stop < 0 then (ch.length + stop).toNat else stop.toNat
        out := out ++ [(ch.take stop').drop skip.toNat]
        i := i + 1
  return out

def spec (segs : List Seg) (offset : Nat) (length : Option Nat) : List V :=
  match length with
  | none => (allData segs).drop offset
  | some l => ((allData segs).drop offset).take l

-- exhaustive small-scope sanity check of the statement (a test, not the theorem)
def segChoices : List Seg :=
  [⟨0,0,none⟩, ⟨0,2,none⟩, ⟨1,1,none⟩, ⟨2,1,none⟩, ⟨2,2,none⟩, ⟨2,3,none⟩, ⟨3,2,some 0⟩, ⟨2,3,some 0⟩, ⟨2,3,some 1⟩, ⟨3,1,some 2⟩, ⟨2,2,some 2⟩]
def allLists : Nat → List (List Seg)
  | 0 => [[]]
  | n+1 => (allLists n) ++ ((allLists n).filter (·.length = n)).flatMap fun l => segChoices.map fun s => l ++ [s]
def checkAll (n : Nat) : Nat × Nat := Id.run do
  let mut bad := 0; let mut tot := 0
  for segs in allLists n do
    let N := (allData segs).length
    for off in [0 : N + 2] do
      for l in [0 : N + 3] do
        let ln : Option Nat := if l = N + 2 then none else some l
        tot := tot + 1
        if (readWindow segs off (ln.map Int.ofNat)).flatten ≠ spec segs off ln then bad := bad + 1
  return (bad, tot)
#eval checkAll 2
