-- C16 spike: generic alphabet with quote q and slash s.
variable {α : Type} [DecidableEq α]

def escape (q : α) : List α → List α
  | [] => []
  | c :: cs => if c = q then q :: q :: escape q cs else c :: escape q cs

def encComp (q s : α) (name : List α) : List α := s :: q :: (escape q name ++ [q])

def encPath (q s : α) (comps : List (List α)) : List α :=
  match comps with
  | [] => [s]
  | _ => (comps.map (encComp q s)).flatten

/-- scan the inside of a quoted component: returns (component, rest after closing quote) -/
def scanComp (q : α) : List α → List α → Option (List α × List α)
  | [], _ => none
  | c :: rest, acc =>
    if c = q then
      match rest with
      | c' :: rest' => if c' = q then scanComp q rest' (acc ++ [q]) else some (acc, rest)
      | [] => some (acc, [])
    else scanComp q rest (acc ++ [c])

theorem scanComp_escape (q : α) (name acc rest : List α) (h : rest.head? ≠ some q) :
    scanComp q (escape q name ++ q :: rest) acc = some (acc ++ name, rest) := by
  induction name generalizing acc with
  | nil =>
    cases rest with
    | nil => simp [escape, scanComp]
    | cons r rs =>
      have : r ≠ q := by simpa using h
      simp [escape, scanComp, this]
  | cons c cs ih =>
    by_cases hc : c = q
    · subst hc; simp [escape, scanComp, ih, List.append_assoc]
    · simp [escape, scanComp, hc, ih, List.append_assoc]
#print axioms scanComp_escape
