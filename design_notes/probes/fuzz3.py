import sys
sys.path.insert(0,sys.argv[2])
from genlib import *
import traceback, nptdms
from nptdms import TdmsFile
logging.disable(logging.CRITICAL)
def check(seed):
    rnd = random.Random(seed)
    b = gen_file(rnd)
    try:
        te = TdmsFile.read(io.BytesIO(b))
    except Exception as ex:
        return ('eager-exc', type(ex).__name__, str(ex)[:80])
    tl = TdmsFile.open(io.BytesIO(b))
    for g in te.groups():
        for c in g.channels():
            full = c[:]
            lc = tl[g.name][c.name]
            n = len(full)
            if len(c)!=n: return ('len', c.path, len(c), n)
            try:
                if repr(lc[:].tolist())!=repr(full.tolist()): return ('lazyfull', c.path)
                for off in range(n+2):
                    for ln in list(range(n+2))+[None]:
                        exp = full[off:] if ln is None else full[off:off+ln]
                        got = lc.read_data(off, ln)
                        if repr(got.tolist())!=repr(exp.tolist()): return ('win', c.path, off, ln, got.tolist(), exp.tolist())
                for i in range(n):
                    if repr(lc[i])!=repr(full[i]): return ('idx', c.path, i)
                cc = [x[:] for x in lc.data_chunks()]
                cat = np.concatenate(cc) if cc else full[:0]
                if repr(cat.tolist())!=repr(full.tolist()): return ('chunks', c.path)
            except Exception as ex:
                return ('lazy-exc', c.path, type(ex).__name__, str(ex)[:100], traceback.format_exc().splitlines()[-3])
    return None
bad={}
N=int(sys.argv[1])
for seed in range(N):
    r = check(seed)
    if r: bad.setdefault(r[0],[]).append((seed,r))
for k,v in bad.items(): print(k, len(v), v[:3])
print("done", N)
