import sys, io, struct, random
sys.path.insert(0,sys.argv[2])
import numpy as np, logging
from nptdms import TdmsFile
from nptdms.test.util import *
from nptdms.test.test_daqmx import daqmx_channel_metadata, daqmx_scaler_metadata, digital_scaler_metadata, segment_toc
logging.disable(logging.CRITICAL)
DT={0:('u1',1),1:('i1',1),2:('u2',2),3:('i2',2),4:('u4',4),5:('i4',4),6:('u8',8),7:('i8',8),8:('f4',4),9:('f8',8)}
def run(seed):
    rnd=random.Random(seed)
    nb=rnd.randint(1,3)
    nch=rnd.randint(1,3)
    # assign each channel to one buffer (all its scalers in that buffer)
    chans=[]; need=[0]*nb
    blen=[rnd.randint(1,4) for _ in range(nb)]
    for ci in range(nch):
        b=rnd.randrange(nb); scalers=[]
        for sid in range(rnd.randint(1,3)):
            t=rnd.choice(list(DT)); off=need[b]+rnd.randint(0,2); need[b]=off+DT[t][1]
            scalers.append((sid,t,off))
        chans.append((b,scalers))
    widths=[max(1,need[b])+rnd.randint(0,3) for b in range(nb)]
    used=set(b for b,_ in chans)
    nchunks=rnd.randint(1,3)
    meta=[]
    for ci,(b,scalers) in enumerate(chans):
        meta.append(daqmx_channel_metadata("c%d"%ci, blen[b], widths, [daqmx_scaler_metadata(sid,t,off,b) for sid,t,off in scalers]))
    # chunk layout: buffers in order; buffer rows = max len over channels using it (unused buffers 0 rows)
    rows=[blen[b] if b in used else 0 for b in range(nb)]
    chunks=[]
    for k in range(nchunks):
        chunks.append([bytes(rnd.getrandbits(8) for _ in range(rows[b]*widths[b])) for b in range(nb)])
    data=b''.join(b''.join(c) for c in chunks)
    f=BytesIoTestFile(); f.add_segment(segment_toc(), segment_objects_metadata(*meta), data, binary_data=True)
    raw=f._get_contents()
    cutlen = len(raw) if rnd.random()<0.5 else rnd.randint(len(raw)-len(data), len(raw))
    raw=raw[:cutlen]; avail=cutlen-(len(f._get_contents())-len(data))
    te=TdmsFile.read(io.BytesIO(raw)); tl=TdmsFile.open(io.BytesIO(raw))
    for ci,(b,scalers) in enumerate(chans):
        ch=te['Group']['c%d'%ci]; lch=tl['Group']['c%d'%ci]
        for sid,t,off in scalers:
            exp=[]; pos=0
            for k in range(nchunks):
                for bb in range(nb):
                    blk=data[pos:pos+rows[bb]*widths[bb]]; 
                    # available bytes
                    a=max(0,min(len(blk), avail-pos)); nrows=a//widths[bb] if rows[bb] else 0
                    if bb==b:
                        for r in range(nrows):
                            exp.append(np.frombuffer(blk[r*widths[bb]+off:r*widths[bb]+off+DT[t][1]],dtype='<'+DT[t][0])[0])
                    pos+=rows[bb]*widths[bb]
            got=ch.raw_scaler_data[sid]
            if got.dtype!=np.dtype(DT[t][0]) or got.tobytes()!=np.array(exp,dtype=DT[t][0]).tobytes(): return ('eager',seed,ci,sid,len(got),len(exp),cutlen==len(f._get_contents()))
            if len(ch)!=len(exp): return ('len',seed,len(ch),len(exp))
            lg=lch.read_data(scaled=False)[sid]
            if lg.tobytes()!=got.tobytes(): return ('lazy',seed)
            n=len(exp)
            for o in range(n+1):
                for l in range(n+2-o):
                    w=lch.read_data(o,l,scaled=False)[sid]
                    if w.tobytes()!=got[o:o+l].tobytes(): return ('win',seed,o,l)
    return None
from collections import Counter
bad=[]
for seed in range(int(sys.argv[1])):
    try: r=run(seed)
    except Exception as ex:
        import traceback; r=('exc',seed,type(ex).__name__,str(ex)[:80],traceback.format_exc().splitlines()[-2].strip()[:70])
    if r: bad.append(r)
print(Counter(x[0] for x in bad)); print(bad[:5])
