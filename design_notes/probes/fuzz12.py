import sys
sys.path.insert(0,sys.argv[2])
from genlib import *
import traceback
from nptdms import TdmsFile
logging.disable(logging.CRITICAL)
def check(b):
    te = TdmsFile.read(io.BytesIO(b)); tl = TdmsFile.open(io.BytesIO(b))
    for g in te.groups():
        for c in g.channels():
            full = c[:]; lc = tl[g.name][c.name]; n = len(full)
            try:
                for off in range(n+2):
                    for ln in list(range(n+2))+[None]:
                        exp = full[off:] if ln is None else full[off:off+ln]
                        got = lc.read_data(off, ln)
                        if repr(got.tolist())!=repr(exp.tolist()): return ('win', c.path, off, ln, got.tolist(), exp.tolist())
                for i in range(n):
                    if repr(lc[i])!=repr(full[i]): return ('idx', c.path, i)
            except Exception as ex:
                return ('lazy-exc', c.path, off, ln, type(ex).__name__, str(ex)[:100])
    return None
bad={}; N=int(sys.argv[1]); cnt=0
for seed in range(N):
    rnd=random.Random(seed); full=gen_file(rnd)
    for _ in range(8):
        cut=rnd.randint(28,len(full)); cnt+=1
        try: r=check(full[:cut])
        except Exception as ex: r=('exc',type(ex).__name__,str(ex)[:80])
        if r: bad.setdefault(r[0],[]).append((seed,cut,r)); break
for k,v in bad.items(): print(k,len(v),v[:3])
print('done',cnt)
