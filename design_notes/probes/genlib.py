import io, struct, random, sys, numpy as np, logging, traceback
from nptdms import TdmsFile
logging.disable(logging.CRITICAL)
STR=0x20
TYPES = {0x20:('s',None),0x44:('ts',16),1:('b',1),2:('h',2),3:('i',4),4:('q',8),5:('B',1),6:('H',2),7:('I',4),8:('Q',8),9:('f',4),10:('d',8),0x21:('B',1)}
def S(s,e): b=s.encode(); return struct.pack(e+'I',len(b))+b
def gen_file(rnd, erng=None):
    paths = ["/'g'/'c%d'"%i for i in range(rnd.randint(1,4))]
    dtype = {p: rnd.choice(list(TYPES)) for p in paths}
    last_idx = {}   # path -> (n)
    prev_list = None  # list of (path, n, has_data)
    out = b''
    nseg = rnd.randint(1,6)
    for si in range(nseg):
        e = '<' if erng is None or erng.random()<0.5 else '>'
        inter = rnd.random()<0.3
        newlist = rnd.random()<0.5 or prev_list is None
        nometa = (prev_list is not None) and rnd.random()<0.15
        toc = 64 if e=='>' else 0
        if nometa:
            cur = prev_list; meta=b''
        else:
            toc |= 2
            if newlist: toc |= 4
            cur = [] if newlist else list(prev_list)
            listed = rnd.sample(paths, rnd.randint(0 if prev_list else 1, len(paths)))
            meta = struct.pack(e+'I', len(listed))
            common_n = rnd.randint(0,5)
            for p in listed:
                kind = rnd.choice(['full','full','prev','nodata'])
                if kind=='prev' and p not in last_idx: kind='full'
                if kind=='full':
                    n = common_n if inter else rnd.randint(0,5)
                    if dtype[p]==STR:
                        L = rnd.randint(0,6) if n>0 else 0
                        hdr = struct.pack(e+'IIIQQ',28,dtype[p],1,n,4*n+L); last_idx[p]=(n,L); ent=(p,(n,L),True)
                    else:
                        hdr = struct.pack(e+'IIIQ',20,dtype[p],1,n); last_idx[p]=n; ent=(p,n,True)
                elif kind=='prev':
                    hdr = struct.pack(e+'I',0); ent=(p,last_idx[p],True)
                else:
                    hdr = struct.pack(e+'I',0xFFFFFFFF); ent=(p,last_idx.get(p,(0,0) if dtype[p]==STR else 0),False)
                meta += S(p,e)+hdr+struct.pack(e+'I',0)
                idx = [i for i,x in enumerate(cur) if x[0]==p]
                if idx: cur[idx[0]] = ent
                else: cur.append(ent)
        data_objs = [x for x in cur if x[2]]
        if inter and (len(set(x[1] for x in data_objs))>1 or any(dtype[x[0]] in (STR,0x44) for x in data_objs)):
            inter=False
        if inter: toc |= 32
        nchunks = rnd.randint(0,3)
        def osz(p,n): return (4*n[0]+n[1]) if dtype[p]==STR else n*TYPES[dtype[p]][1]
        csize = sum(osz(p,n) for p,n,_ in data_objs)
        if csize==0: nchunks=0
        data = b''
        for _c in range(nchunks):
            if inter:
                for _r in range(data_objs[0][1] if data_objs else 0):
                    for p,n,_ in data_objs:
                        el = bytes(rnd.getrandbits(8) for _ in range(TYPES[dtype[p]][1]))
                        data += el if e=='<' else el[::-1]
            else:
                for p,n,_ in data_objs:
                    if dtype[p]==STR:
                        cnt,L = n
                        cuts = sorted(rnd.randint(0,L) for _ in range(cnt-1))+[L] if cnt>0 else []
                        data += b''.join(struct.pack(e+'I',c) for c in cuts) + bytes(rnd.choice(b'abcxyz') for _ in range(L))
                    elif dtype[p]==0x44:
                        for _k in range(n):
                            el = struct.pack('<Qq', rnd.getrandbits(64), rnd.randint(-10**9, 4*10**9)); data += el if e=='<' else el[::-1]
                    else:
                        w = TYPES[dtype[p]][1]
                        for _k in range(n):
                            el = bytes(rnd.getrandbits(8) for _ in range(w)); data += el if e=='<' else el[::-1]
        if nchunks>0: toc |= 8
        out += b'TDSm'+struct.pack('<i',toc)+struct.pack(e+'iQQ',4713,len(meta)+len(data),len(meta))+meta+data
        prev_list = cur
    return out
