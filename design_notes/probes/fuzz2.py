import io, sys, random, numpy as np, logging
sys.path.insert(0, '/tmp/scratch/repo')
from genlib import *
import nptdms
from nptdms import TdmsFile
logging.disable(logging.CRITICAL)
def readall(b, lazy):
    t = TdmsFile.open(io.BytesIO(b)) if lazy else TdmsFile.read(io.BytesIO(b))
    out={}
    for g in t.groups():
        for c in g.channels():
            d = c[:]
            out[c.path]=(len(c), [repr(x) for x in d.tolist()], len(d))
    return out, t.file_status.incomplete_final_segment
bad=[]
N=int(sys.argv[1]); cuts=0
for seed in range(N):
    rnd = random.Random(seed); full = gen_file(rnd)
    try: ref,_ = readall(full, False)
    except Exception as ex: continue
    for cut in range(4, len(full)+1):
        cuts+=1
        b = full[:cut]
        try:
            e, st = readall(b, False); l, st2 = readall(b, True)
        except Exception as ex:
            bad.append((seed,cut,"EXC",type(ex).__name__,str(ex)[:80])); break
        if e!=l: bad.append((seed,cut,"lazy!=eager")); break
        ok=True
        for p,(n,v,k) in e.items():
            if n!=k or ref[p][1][:len(v)]!=v: bad.append((seed,cut,p,"not prefix",n,k)); ok=False; break
        if not ok: break
print("cuts",cuts,"bad",len(bad)); print(bad[:8])
