import sys
sys.path.insert(0,sys.argv[2])
from genlib import *
import traceback, nptdms
from nptdms import TdmsFile
logging.disable(logging.CRITICAL)
def canon(x):
    if hasattr(x,'tolist'): return repr(x.tolist())
    return repr(x)
def run(seed):
    rnd = random.Random(seed); b = gen_file(rnd)
    try: t = TdmsFile.open(io.BytesIO(b))
    except Exception: return None
    chans = [c for g in t.groups() for c in g.channels()]
    if not chans: return None
    # reference sequences on fresh files
    def fresh(): return TdmsFile.open(io.BytesIO(b))
    ref_file_chunks = [ {c.path: canon(ch[g.name][c.name][:]) for g in t.groups() for c in g.channels()} for ch in fresh().data_chunks()]
    ref_chan_chunks = {c.path: [canon(x[:]) for x in fresh()[c.group_name][c.name].data_chunks()] for c in chans}
    its = []  # (kind, gen, pos, path)
    for step in range(rnd.randint(1,25)):
        op = rnd.choice(['idx','slice','read','newc','newf','next','next','next'])
        c = rnd.choice(chans); n=len(c)
        try:
            if op=='idx' and n>0:
                i = rnd.randrange(n); got = canon(c[i]); exp = canon(fresh()[c.group_name][c.name][i])
                if got!=exp: return ('idx',seed,step)
            elif op=='slice':
                a=rnd.randint(-n-1,n+1); bb=rnd.randint(-n-1,n+1); s=rnd.choice([None,1,2,-1,-2])
                got=canon(c[a:bb:s]); exp=canon(fresh()[c.group_name][c.name][a:bb:s])
                if got!=exp: return ('slice',seed,step)
            elif op=='read':
                o=rnd.randint(0,n+1); l=rnd.choice([None]+list(range(n+2)))
                got=canon(c.read_data(o,l)); exp=canon(fresh()[c.group_name][c.name].read_data(o,l))
                if got!=exp: return ('read',seed,step)
            elif op=='newc': its.append(['c', c.data_chunks(), 0, c.path])
            elif op=='newf': its.append(['f', t.data_chunks(), 0, None])
            elif op=='next' and its:
                it = rnd.choice(its)
                try: ch = next(it[1])
                except StopIteration:
                    exp_len = len(ref_chan_chunks[it[3]]) if it[0]=='c' else len(ref_file_chunks)
                    if it[2]!=exp_len: return ('short-iter',seed,step,it[0],it[2],exp_len)
                    its.remove(it); continue
                if it[0]=='c':
                    if it[2]>=len(ref_chan_chunks[it[3]]) or canon(ch[:])!=ref_chan_chunks[it[3]][it[2]]: return ('chan-chunk',seed,step,it[2])
                else:
                    got={cc.path: canon(ch[g.name][cc.name][:]) for g in t.groups() for cc in g.channels()}
                    if it[2]>=len(ref_file_chunks) or got!=ref_file_chunks[it[2]]: return ('file-chunk',seed,step,it[2])
                it[2]+=1
        except Exception as ex:
            return ('exc',seed,step,op,type(ex).__name__,str(ex)[:80])
    return None
bad={}
for seed in range(int(sys.argv[1])):
    r=run(seed)
    if r: bad.setdefault(r[0],[]).append(r)
for k,v in bad.items(): print(k,len(v),v[:3])
print('done')
