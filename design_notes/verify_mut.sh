#!/bin/sh
# usage: verify_mut.sh mNN : verifies in the dedicated clean worktree /tmp/mut/verify using the delivered patch.diff only (no git stash)
m=$1
V=/tmp/mut/verify
cd $V || exit 2
git checkout -q -- . ; git clean -fdq
PYTHONPATH=$V /venv/bin/python /tmp/mut/$m-work/out/demo.py > /tmp/mut/$m-work/demo_clean.txt 2>&1; echo "clean-tree demo exit=$?"
git apply /tmp/mut/$m-work/out/patch.diff || { echo "PATCH DOES NOT APPLY"; exit 1; }
git diff --stat | tail -1
PYTHONPATH=$V /venv/bin/python /tmp/mut/$m-work/out/demo.py > /tmp/mut/$m-work/demo_changed.txt 2>&1; echo "changed-tree demo exit=$?"
PYTHONPATH=$V /venv/bin/python -m pytest -q -p no:cacheprovider 2>&1 | grep -E "passed|failed" | tail -1
